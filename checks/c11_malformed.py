"""C11 - malformed input is rejected with a located package error, never accepted."""
import re

from vlib import gen, harness, pipeline
from vlib.layout import Layout, RAW_KEYWORDS
from checks import c02_ast

ID = 'C11'
CONTRACTS = True     # icontract recording contracts ride along (vlib/contracts.py)
LEVEL = 'exploration'
RULE = ('corpus = well-formed texts of the C02 generator (incl. multi-line MACRO / EXPORTS / CHOICE '
        'blocks, CR / CRLF line ends, several modules per file); per text: every proper prefix at '
        'token granularity and sampled character-level prefixes (oracle: a prefix is complete iff it '
        'ends in layout after a module\'s END or before the first token - otherwise an error is '
        'mandatory), insertions with a known offending position (illegal character, forbidden ASN.1 '
        'word, number > 64 bit, identifier ending in "-", stray "]"; oracle: exact 1-based line of the '
        'inserted token), single-token delete / duplicate / replace / swap and random character noise '
        '(oracle: package lexer/parser error with 1 <= lineno <= lines, or a normal return); all '
        'three dialects; a logical progress bound on lexer entries replaces wall-clock; sampled '
        'texts also go through compile(); non-trivial = mutation strictly inside a module; '
        'distinct = hash(text)')
ASSUMPTIONS = ['LALR never shifts an erroneous token, so the reported token of an inserted bad token '
               'is the inserted one', 'the layout generator separates word-like tokens']

DIALECTS = c02_ast.DIALECTS
LINEBREAK = re.compile(r'\r\n|\n|\r')
ILLEGAL = ['!', '@', '$', '%', '&', '~', '?', '\x00', '\x7f', u'\xe9', '#', '*', '=', '<', '+']
FORBIDDEN = ['BOOLEAN', 'ANY', 'DEFAULT', 'EXTERNAL', 'TRUE', 'FALSE', 'NULL', 'OPTIONAL', 'SET',
             'REAL', 'ENUMERATED', 'BIT', 'WITH', 'MINUS-INFINITY']


class ProgressBound(BaseException):
    pass


def plan(tier, seed):
    if tier == 'quick':
        return {'n': 2800, 'budget_s': 45, 'min_evals': 30000,
                'floors': {'parses': 30000, 'prefix_must_fail': 10000, 'exact_lineno_checked': 6000,
                           'generic_mutations': 6000, 'prefix_complete': 300, 'multiline_token_errors': 500}}
    return {'n': 60000, 'budget_s': 650, 'min_evals': 1000000,
            'floors': {'parses': 1000000, 'prefix_must_fail': 400000, 'exact_lineno_checked': 200000,
                       'generic_mutations': 200000, 'prefix_complete': 10000}}


def line_of(text, pos):
    return 1 + len(LINEBREAK.findall(text[:pos]))


def nlines(text):
    return 1 + len(LINEBREAK.findall(text))


def guarded_parse(parser, text):
    """parse with a logical progress bound on lexer entries"""
    lx = parser.lexer.lexer
    orig = lx.token
    bound = len(text) + 8
    cnt = [0]

    def counting():
        cnt[0] += 1
        if cnt[0] > bound:
            raise ProgressBound('%d lexer entries for %d characters' % (cnt[0], len(text)))
        return orig()
    lx.token = counting
    try:
        return parser.parse(text)
    finally:
        try:
            del lx.token
        except AttributeError:
            pass


def attempt(dialect, text):
    from pysmi import error
    p = c02_ast.parser(dialect)
    try:
        out = guarded_parse(p, text)
        return ('ok', out, None)
    except ProgressBound as exc:
        _reset(dialect)
        return ('noprogress', None, exc)
    except (error.PySmiLexerError, error.PySmiParserError) as exc:
        return ('pkgerr', None, exc)
    except BaseException as exc:
        _reset(dialect)
        return ('other', None, exc)


def _reset(dialect):
    c02_ast._PARSERS.pop(dialect, None)


def generic_judgement(res, kind, dialect, text, outcome, replay_extra=None):
    """what must hold for *any* text"""
    st, out, exc = outcome
    res.count('parses')
    rp = {'text': text, 'dialect': dialect, 'mutation': kind}
    if replay_extra:
        rp.update(replay_extra)
    if st == 'other':
        res.violation('foreign_exception', '%s on a %s mutation under %s: %s' % (
            type(exc).__name__, kind, dialect, exc), replay=rp, exc=type(exc).__name__, mutation=kind)
        return False
    if st == 'noprogress':
        res.violation('progress_bound', '%s (%s, %s)' % (exc, kind, dialect), replay=rp, mutation=kind)
        return False
    if st == 'pkgerr':
        ln = getattr(exc, 'lineno', None)
        if not isinstance(ln, int) or isinstance(ln, bool) or ln < 1 or ln > nlines(text):
            res.violation('lineno_out_of_range', '%s: lineno %r for a text of %d lines (%s)' % (
                type(exc).__name__, ln, nlines(text), exc), replay=rp, mutation=kind)
            return False
        try:
            str(exc)
            repr(exc)
        except Exception as e2:
            res.violation('error_unprintable', '%s cannot be rendered: %r' % (type(exc).__name__, e2), replay=rp,
                          mutation=kind)
            return False
        res.count('errors_rendered')
    elif not isinstance(out, list):
        res.violation('bad_return', 'parse returned %r' % (out,), replay=rp)
        return False
    return True


# malformed constructs the relaxed dialect tolerates; the shipped strict dialects must refuse them.  What a
# dialect enables is taken from the documentation, not from pysmi.parser.dialect
TOLERATED_ONLY_WHEN_RELAXED = ['import_comma', 'sequence_comma', 'enum_trailing', 'enum_spaces', 'upper_enum',
                               'upper_notification', 'trap_braces', 'no_cells']


def case_strict_dialects(idx, rng, tier, res):
    from checks import c17_dialects as c17
    g = c02_ast.make_set(rng, tier, [f for f in c02_ast.FEATURES])
    order = list(TOLERATED_ONLY_WHEN_RELAXED)
    rng.shuffle(order)
    kind = site = None
    for k in order:
        site = c17.plant(g, rng, k)
        if site is not None:
            kind = k
            break
    if kind is None:
        return
    toks = []
    for m in g.modules:
        toks += m.tokens()
    text = Layout(rng, 'noisy' if rng.random() < 0.5 else 'plain').join(toks)
    nmut = 0
    # the two strict dialects as shipped, and the same two spelled out option by option with every
    # tolerance named and switched off
    for dialect in ('smiV2', 'smiV1', 'smiV2 (every option False)', 'smiV1 (tolerances False)'):
        if '(' in dialect and dialect not in c02_ast._PARSERS:
            from pysmi.parser.smi import parserFactory
            from checks import c17_dialects as c17_
            flags = dict((o, False) for o in c17_.OPTIONS)
            if dialect.startswith('smiV1'):
                flags.update(supportSmiV1Keywords=True, supportIndex=True)
            try:
                c02_ast._PARSERS[dialect] = parserFactory(**flags)()
            except Exception as exc:
                res.violation('explicit_false_dialect_unbuildable', 'parserFactory(%r) raised %r' % (flags, exc),
                              replay={'flags': flags}, dialect=dialect)
                continue
        oc = attempt(dialect, text)
        if not generic_judgement(res, 'strict_' + kind, dialect, text, oc):
            continue
        nmut += 1
        res.count('tolerated_constructs_under_strict_dialects')
        res.cell('strict:%s:%s' % (dialect, kind))
        if oc[0] == 'ok':
            res.violation('malformed_accepted_by_strict_dialect', 'the %s dialect accepted a text with %s at %s - a construct '
                          'only the relaxed dialect tolerates' % (dialect, kind, site),
                          replay={'text': text, 'dialect': dialect}, mutation=kind, dialect=dialect)
    res.evals = nmut
    res.sig = harness.stable_hash([text])
    res.nontrivial = nmut > 0


def run_case(idx, rng, tier, res):
    from pysmi import error
    if idx % 8 == 5:
        return case_strict_dialects(idx, rng, tier, res)
    feats = [f for f in c02_ast.FEATURES if f != 'tags']
    g = c02_ast.make_set(rng, tier, feats)
    # keep texts small: one or two modules per text
    mods = g.modules[:2] if idx % 3 == 0 else g.modules[:1]
    toks = []
    ends = []
    for m in mods:
        mt = m.tokens()
        toks += mt
        ends.append(len(toks) - 1)
    lay = Layout(rng, 'noisy', eol=rng.choice([None, '\n', '\r\n', '\r']))
    spans = []
    text = lay.join(toks, spans=spans)
    dialect = DIALECTS[idx % 3]
    base = attempt(dialect, text)
    if base[0] != 'ok':
        res.violation('wellformed_rejected', 'corpus text rejected: %r' % (base[2],),
                      replay={'text': text, 'dialect': dialect})
        return
    res.count('parses')
    nmut = 0

    # ---- (a) prefixes at token granularity (all) and character granularity (sampled)
    tok_cuts = list(range(len(toks)))
    if tier == 'quick' and len(tok_cuts) > 60:
        tok_cuts = sorted(rng.sample(tok_cuts, 60))
    for k in tok_cuts:
        cut = spans[k][0] if k else 0           # text before token k (keeps the layout before it)
        variant = rng.random()
        if k and variant < 0.5:
            cut = spans[k - 1][1]               # right after the previous token
        pre = text[:cut]
        complete = (k == 0) or ((k - 1) in ends)
        oc = attempt(dialect, pre)
        if not generic_judgement(res, 'token_prefix', dialect, pre, oc):
            continue
        nmut += 1
        if complete:
            res.count('prefix_complete')
            if oc[0] != 'ok' or len(oc[1]) != (ends.index(k - 1) + 1 if k else 0):
                res.violation('complete_prefix_rejected', 'prefix ending after module %d: %s %r' % (
                    ends.index(k - 1) + 1 if k else 0, oc[0], oc[2] or [m[0] for m in oc[1]]),
                    replay={'text': pre, 'dialect': dialect})
        else:
            res.count('prefix_must_fail')
            state = 'block' if (toks[k - 1] in RAW_KEYWORDS or getattr(toks[k - 1], 'raw', False)) else 'plain'
            res.cell('cut:' + state)
            if oc[0] == 'ok':
                res.violation('truncated_accepted', 'text ending inside a module (after token %r) parsed to %r' % (
                    str(toks[k - 1])[:30], [m[0] for m in oc[1]]), replay={'text': pre, 'dialect': dialect},
                    state=state)
    first = spans[0][0]
    for _ in range(12 if tier == 'quick' else 40):
        cut = rng.randrange(first + 1, len(text))
        pre = text[:cut]
        oc = attempt(dialect, pre)
        if not generic_judgement(res, 'char_prefix', dialect, pre, oc):
            continue
        nmut += 1
        # inside a module unless the cut lies in the layout after a module's END
        k = max(i for i, (a, b) in enumerate(spans) if a < cut)
        inside = not (k in ends and cut >= spans[k][1])
        if inside:
            res.count('prefix_must_fail')
            if oc[0] == 'ok':
                res.violation('truncated_accepted', 'text cut at character %d (inside token/after %r) parsed to %r' % (
                    cut, str(toks[k])[:30], [m[0] for m in oc[1]]), replay={'text': pre, 'dialect': dialect},
                    state='char')

    # ---- (b) insertions with a known offending position
    positions = [k for k in range(1, len(toks))
                 if toks[k - 1] not in RAW_KEYWORDS and not getattr(toks[k - 1], 'raw', False)
                 and not getattr(toks[k], 'raw', False)]
    for _ in range(14 if tier == 'quick' else 60):
        k = rng.choice(positions)
        kind = rng.choice(['illegal', 'forbidden', 'bignum', 'dash', 'bracket'])
        bad = {'illegal': rng.choice(ILLEGAL), 'forbidden': rng.choice(FORBIDDEN),
               'bignum': rng.choice(['18446744073709551616', '-18446744073709551616', '99999999999999999999999',
                                     '7' * 4400, '-' + '1' * 5000]),
               'dash': rng.choice(['foo-', 'Bar-', 'x9-']), 'bracket': ']'}[kind]
        a = spans[k][0]
        sepl = rng.choice([' ', '\n', '\r\n', '\t', ' \r'])
        sepr = rng.choice([' ', '\n', '  '])
        mutated = text[:a] + sepl + bad + sepr + text[a:]
        pos = a + len(sepl)
        want_line = line_of(mutated, pos)
        oc = attempt(dialect, mutated)
        if not generic_judgement(res, 'insert_' + kind, dialect, mutated, oc):
            continue
        nmut += 1
        res.count('exact_lineno_checked')
        res.cell('insert:' + kind)
        if oc[0] == 'ok':
            res.violation('bad_token_accepted', 'text with %r inserted before token %d parsed fine' % (bad, k),
                          replay={'text': mutated, 'dialect': dialect}, mutation=kind)
        elif oc[2].lineno != want_line:
            blocks = any(t in RAW_KEYWORDS for t in toks[:k])
            res.violation('wrong_lineno', '%r inserted on line %d, %s says line %r (%s)' % (
                bad, want_line, type(oc[2]).__name__, oc[2].lineno, oc[2]),
                replay={'text': mutated, 'dialect': dialect}, mutation=kind, after_block=blocks)
        want_cls = error.PySmiParserError if kind == 'bracket' else error.PySmiLexerError
        if oc[0] == 'pkgerr' and not isinstance(oc[2], want_cls):
            res.violation('wrong_error_class', '%r: %s raised' % (bad, type(oc[2]).__name__),
                          replay={'text': mutated, 'dialect': dialect}, mutation=kind)

    # ---- (b2) a text keyword deleted in front of a (multi-line) quoted string: the string itself is
    # the offending token and the error must name the line it *starts* on
    TEXTKW = ('DESCRIPTION', 'REFERENCE', 'ORGANIZATION', 'CONTACT-INFO', 'UNITS', 'LAST-UPDATED',
              'PRODUCT-RELEASE', 'DISPLAY-HINT')
    sites = [k for k in range(len(toks) - 1) if toks[k] in TEXTKW and str(toks[k + 1]).startswith('"')]
    multi = [k for k in sites if LINEBREAK.search(str(toks[k + 1]))]
    for k in (rng.sample(multi, min(len(multi), 4)) + rng.sample(sites, min(len(sites), 2))):
        a, b = spans[k]
        mutated = text[:a] + ' ' * (b - a) + text[b:]
        want_line = line_of(mutated, spans[k + 1][0])
        oc = attempt(dialect, mutated)
        if not generic_judgement(res, 'drop_text_keyword', dialect, mutated, oc):
            continue
        nmut += 1
        res.count('exact_lineno_checked')
        res.count('multiline_token_errors' if k in multi else 'singleline_token_errors')
        if oc[0] == 'ok':
            res.violation('bad_token_accepted', 'text keyword %s deleted, text still parsed' % toks[k],
                          replay={'text': mutated, 'dialect': dialect}, mutation='drop_text_keyword')
        elif oc[2].lineno != want_line:
            res.violation('wrong_lineno', 'quoted text without its %s keyword starts on line %d, %s says line %r' % (
                toks[k], want_line, type(oc[2]).__name__, oc[2].lineno),
                replay={'text': mutated, 'dialect': dialect}, mutation='drop_text_keyword',
                multiline=k in multi, after_block=False)

    # ---- (c) delete / duplicate / replace / swap one token, (d) character noise
    for _ in range(14 if tier == 'quick' else 60):
        k = rng.randrange(len(toks))
        op = rng.choice(['delete', 'duplicate', 'replace', 'swap', 'noise', 'quote'])
        a, b = spans[k]
        if op == 'delete':
            mutated = text[:a] + text[b:]
        elif op == 'duplicate':
            mutated = text[:b] + ' ' + text[a:b] + text[b:]
        elif op == 'replace':
            mutated = text[:a] + str(rng.choice(toks)) + text[b:]
        elif op == 'swap' and k + 1 < len(toks):
            a2, b2 = spans[k + 1]
            mutated = text[:a] + text[a2:b2] + text[b:a2] + text[a:b] + text[b2:]
        elif op == 'quote':
            mutated = text[:a] + '"' + text[a:]
        else:
            chars = list(text)
            for _i in range(rng.randint(1, 4)):
                p = rng.randrange(len(chars))
                chars[p] = rng.choice(['"', "'", '-', '\n', '\r', '{', '}', 'E', '0', ';', '\x00', u'€', ' '])
            mutated = ''.join(chars)
        oc = attempt(dialect, mutated)
        if generic_judgement(res, op, dialect, mutated, oc):
            nmut += 1
            res.count('generic_mutations')
            res.cell('generic:%s:%s' % (op, oc[0]))

    # ---- (e) the same through compile(): failed + same error class / line
    if idx % 8 == 0:
        k = rng.choice(positions)
        a = spans[k][0]
        mutated = text[:a] + ' ! ' + text[a:]
        want_line = line_of(mutated, a + 1)
        name = mods[0].name
        try:
            results, written = pipeline.compile_set({name: mutated}, [name], dialect=dialect)
            st = results.get(name)
            err = getattr(st, 'error', None)
            res.count('compile_level_checks')
            if st != 'failed' or not isinstance(err, error.PySmiLexerError) or err.lineno != want_line:
                res.violation('compile_error_report', 'compile(): %s is %r with error %r (expected lexer error '
                              'on line %d)' % (name, st, err, want_line), replay={'text': mutated, 'dialect': dialect})
        except Exception as exc:
            res.violation('compile_raised', 'compile() raised %r for a lexically broken MIB' % (exc,),
                          replay={'text': mutated, 'dialect': dialect})

    res.evals = nmut + 1
    res.sig = harness.stable_hash(text)
    res.nontrivial = nmut > 0
    if idx % 500 == 0:
        res.sample = {'dialect': dialect, 'text_head': text[:600], 'tokens': len(toks),
                      'mutations_run': nmut}
