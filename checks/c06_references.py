"""C06 - references between objects keep their targets, order and module attribution."""
from vlib import gen, harness, pipeline, compiled
from vlib.mib import pyname
from vlib.layout import Layout

ID = 'C06'
LEVEL = 'exploration'
RULE = ('module sets with tables (1-8 columns, 1-4 indices mixing local / imported / IMPLIED, rows '
        'augmenting local and imported rows, tables / rows / SEQUENCE types in any order), notification, '
        'trap, group and compliance statements with lists of 1-12 members mixing local and imported '
        'objects, hyphenated names on either side of an import; compiled by the real compiler; the '
        'model\'s (module, name) lists are compared with the JSON document (nodetype, indices, '
        'augmention, objects, compliance groups) and with the executed pysnmp objects '
        '(getIndexNames, augmentation registration, getObjects); non-trivial = >=1 imported index or '
        'imported list member; distinct = structural signature of the reference lists')
ASSUMPTIONS = ['module attribution is compared against the defining module known to the generator']


def plan(tier, seed):
    if tier == 'quick':
        return {'n': 1500, 'budget_s': 45, 'min_evals': 600,
                'floors': {'rows_checked': 1200, 'index_entries_checked': 2000, 'index_entries_imported': 150,
                           'lists_checked': 2000, 'list_members_imported': 600, 'augments_checked': 100,
                           'pysnmp_objects_checked': 3000}}
    return {'n': 30000, 'budget_s': 600, 'min_evals': 12000,
            'floors': {'rows_checked': 25000, 'index_entries_checked': 40000, 'index_entries_imported': 3000,
                       'lists_checked': 40000, 'list_members_imported': 12000, 'augments_checked': 2000,
                       'pysnmp_objects_checked': 60000}}


def make_set(rng, tier):
    prof = gen.profile(modules=(1, 4), nodes=(1, 4), scalars=(1, 5), tables=(1, 3), notifs=(0, 3),
                       groups=(1, 3), syntax='trivial',
                       features=['split_imports', 'traps', 'compliance', 'compliance_objects'],
                       max_cols=8, max_idx=4, max_list=rng.choice([3, 6, 12]),
                       p_hyphen=rng.choice([0.0, 0.3, 0.6]), p_foreign_index=rng.choice([0.2, 0.5]),
                       p_foreign_member=rng.choice([0.2, 0.5]), p_augments=0.3, p_implied=0.4)
    return gen.SetGen(rng, prof).build()


def run_case(idx, rng, tier, res):
    g = make_set(rng, tier)
    texts = g.texts((lambda: Layout(rng, 'noisy')) if rng.random() < 0.25 else None)
    # references must not depend on whether the descriptive texts are generated as well
    gt = rng.random() < 0.4
    c = compiled.Compiled(g, texts, load_texts=gt, genTexts=gt)
    res.cell('genTexts:%s' % gt)
    replay = {'texts': texts, 'genTexts': gt}
    for b, n, st, err in c.status_problems():
        res.violation('not_compiled', '%s: %s is %s (%s)' % (b, n, st, err), replay=replay, backend=b)
    sig = []
    for m in g.modules:
        doc = c.docs.get(m.name)
        ns = c.ns(m.name)
        if c.exec_error(m.name) is not None and not isinstance(c.exec_error(m.name), pipeline.DependencyFailed):
            res.violation('pysnmp_exec', '%s: %r' % (m.name, c.exec_error(m.name)), replay=replay,
                          exc=type(c.exec_error(m.name)).__name__)
        for d in m.decls:
            e = doc.get(pyname(d.name)) if doc else None
            o = ns.get(pyname(d.name)) if ns else None
            feat = dict(kind=d.kind, hyphen='-' in d.name)

            def V(mon, what, got, want, **kw):
                f = dict(feat)
                f.update(kw)
                res.violation(mon, '%s::%s (%s): %s is %r, the text says %r' % (m.name, d.name, d.kind, what, got, want),
                              replay=replay, **f)
            if d.kind == 'objecttype':
                if e is not None and e.get('nodetype') != d.role:
                    V('json_nodetype', 'nodetype', e.get('nodetype'), d.role)
                if o is not None:
                    cls = {'scalar': 'MibScalar', 'table': 'MibTable', 'row': 'MibTableRow',
                           'column': 'MibTableColumn'}[d.role]
                    res.count('pysnmp_objects_checked')
                    if type(o).__name__ != cls:
                        V('pysnmp_nodetype', 'pysnmp class', type(o).__name__, cls)
                if d.role == 'row':
                    res.count('rows_checked')
                    if d.index is not None:
                        want = [{'module': mod, 'object': nm, 'implied': 1 if imp else 0} for imp, mod, nm in d.index]
                        sig.append(('idx', [(imp, mod != m.name) for imp, mod, nm in d.index]))
                        for imp, mod, nm in d.index:
                            res.count('index_entries_checked')
                            if mod != m.name:
                                res.count('index_entries_imported')
                                res.nontrivial = True
                        if e is not None:
                            got = [dict(module=x.get('module'), object=x.get('object'), implied=x.get('implied'))
                                   for x in e.get('indices', [])]
                            norm = lambda L: [(x['module'], pyname(x['object'] or ''), int(bool(x['implied']))) for x in L]
                            if norm(got) != norm(want):
                                hy = any('-' in nm and mod != m.name for imp, mod, nm in d.index)
                                V('json_indices', 'indices', norm(got), norm(want), imported_hyphen=hy)
                        if o is not None:
                            try:
                                got = [(mod, pyname(nm), int(bool(imp))) for imp, mod, nm in o.getIndexNames()]
                            except Exception as exc:
                                got = repr(exc)
                            wantp = [(mod, pyname(nm), 1 if imp else 0) for imp, mod, nm in d.index]
                            if got != wantp:
                                hy = any('-' in nm and mod != m.name for imp, mod, nm in d.index)
                                V('pysnmp_indices', 'getIndexNames()', got, wantp, imported_hyphen=hy)
                    if d.augments is not None:
                        res.count('augments_checked')
                        amod, aname = d.augments
                        sig.append(('aug', amod != m.name))
                        if e is not None:
                            got = (e.get('augmention') or {}).get('object')
                            if got != pyname(aname):
                                V('json_augments', 'augmention.object', got, pyname(aname))
                        if o is not None:
                            target = g.nodes[(amod, aname)]
                            wantp = [(mod, pyname(nm), 1 if imp else 0) for imp, mod, nm in target.index]
                            try:
                                got = [(mod, pyname(nm), int(bool(imp))) for imp, mod, nm in o.getIndexNames()]
                            except Exception as exc:
                                got = repr(exc)
                            if got != wantp:
                                V('pysnmp_augments_index', 'index names copied from the augmented row', got, wantp)
                            tns = c.ns(amod)
                            tobj = tns.get(pyname(aname)) if tns else None
                            if tobj is not None:
                                regs = getattr(tobj, '_augmentingRows', None) or getattr(tobj, 'augmentingRows', None)
                                flat = repr(regs)
                                if regs is not None and pyname(d.name) not in flat and d.name not in flat:
                                    V('pysnmp_augments_registration', 'augmenting rows of %s' % aname, flat[:100], d.name)
            if d.kind in ('notificationtype', 'traptype', 'objectgroup', 'notificationgroup'):
                want = [(mod, pyname(nm)) for mod, nm in d.objects]
                res.count('lists_checked')
                sig.append((d.kind, [mod != m.name for mod, nm in d.objects]))
                nimp = sum(1 for mod, nm in d.objects if mod != m.name)
                res.count('list_members_imported', nimp)
                if nimp:
                    res.nontrivial = True
                if e is not None:
                    got = [(x.get('module'), x.get('object')) for x in e.get('objects', [])]
                    if got != want:
                        V('json_objects', 'objects', got, want, length=len(want))
                if o is not None:
                    try:
                        got = [(a, pyname(b)) for a, b in o.getObjects()]
                    except Exception as exc:
                        got = repr(exc)
                    res.count('pysnmp_objects_checked')
                    if got != want:
                        V('pysnmp_objects', 'getObjects()', got, want, length=len(want))
            if d.kind == 'modulecompliance':
                want = []
                for cm in d.modules:
                    names = list(cm['mandatory']) + [it[1] for it in cm['items'] if it[0] == 'GROUP']
                    want += [(cm['target'], pyname(nm)) for nm in names]
                res.count('lists_checked')
                if e is not None:
                    got = [(x.get('module'), x.get('object')) for x in e.get('modulecompliance', [])]
                    if got != want:
                        lead = any(cm['items'] and cm['items'][0][0] == 'OBJECT' for cm in d.modules)
                        V('json_compliance', 'compliance groups', got, want, leading_object=lead)
                if o is not None:
                    try:
                        got = [(a, pyname(b)) for a, b in o.getObjects()]
                    except Exception as exc:
                        got = repr(exc)
                    res.count('pysnmp_objects_checked')
                    if got != want:
                        V('pysnmp_compliance', 'ModuleCompliance.getObjects()', got, want)
    res.sig = harness.stable_hash(sig)
    if idx % 500 == 0:
        m = g.modules[-1]
        res.sample = {'module': m.name, 'rows': [(d.name, d.index, d.augments) for d in m.decls
                                                 if d.kind == 'objecttype' and d.role == 'row'][:4],
                      'lists': [(d.kind, d.name, d.objects) for d in m.decls if hasattr(d, 'objects')][:4]}
