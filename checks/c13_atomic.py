"""C13 - writing a module is atomic under I/O faults; dry-run touches nothing."""
import os
import shutil
import subprocess
import sys
import tempfile
import time

from vlib import harness, env, faults, fsmon

ID = 'C13'
CONTRACTS = True     # icontract recording contracts ride along (vlib/contracts.py)
LEVEL = 'fault_enumeration'
RULE = ('for each writer configuration (FileWriter / PyFileWriter x pyCompile x fresh or existing '
        'destination x destination directory present or not x payload size and alphabet) a discovery '
        'run records the ordered system-level calls of putData() made through os / tempfile / '
        'py_compile / open; every discovered call site is then re-run with every applicable fault '
        '(OSError errno before the effect, error after the effect, genuine short write); the '
        'directory snapshot afterwards is judged (destination old-or-new, no stray file, writer '
        'error type, full content on normal return); every call site is also a crash point: a '
        'forked process is SIGKILLed right before / after the call or half way through a write and '
        'the destination must be the complete old or new file; dry-run / writeMibs=False windows are watched by '
        'an audit-hook sanitizer with a positive control; concurrent writers of one module with '
        'self-describing payloads are polled by a reader; non-trivial = fault at write / close / '
        'rename / mkstemp; distinct = (configuration, call site, fault)')
ASSUMPTIONS = ['the writer modules reach the OS through their module globals os / tempfile / '
               'py_compile / open (otherwise the discovery floor makes the run inconclusive)',
               'exactly one fault per execution (the property says "single I/O step")']

ERR_FOR = {
    'os.makedirs': ['error:EACCES', 'error:ENOSPC', 'error:EEXIST'],
    'os.mkdir': ['error:EACCES', 'error:ENOSPC'],
    'tempfile.mkstemp': ['error:EACCES', 'error:ENOSPC', 'error:EMFILE'],
    'tempfile.NamedTemporaryFile': ['error:EACCES', 'error:ENOSPC'],
    'os.write': ['error:ENOSPC', 'error:EIO', 'error:EDQUOT', 'short:0', 'short:1', 'short:half', 'short:allbut1'],
    'file.write': ['error:ENOSPC', 'short:half', 'short:1'],
    'file.close': ['after:EIO', 'error:EIO'],
    'file.flush': ['error:ENOSPC'],
    'os.close': ['after:EIO', 'error:EIO'],
    'os.fsync': ['error:EIO'],
    'os.rename': ['error:EXDEV', 'error:EACCES', 'error:ENOENT', 'error:ENOSPC'],
    'os.replace': ['error:EXDEV', 'error:EACCES'],
    'builtins.open': ['error:EACCES', 'error:ENOSPC'],
    'os.open': ['error:EACCES', 'error:ENOSPC'],
    'py_compile.compile': ['exc:OSError', 'exc:RuntimeError', 'exc:MemoryError'],
}
SURFACING_SITES = ('tempfile.mkstemp', 'tempfile.NamedTemporaryFile', 'os.write', 'file.write', 'os.close',
                   'file.close', 'os.rename', 'os.replace')
SIZES = [0, 1, 100, 4095, 4096, 70000]


def plan(tier, seed):
    if tier == 'quick':
        return {'n': 4000, 'budget_s': 40, 'min_evals': 10000,
                'floors': {'faults_hit': 10000, 'points_write': 500, 'points_rename': 500,
                           'points_close': 500, 'points_mkstemp': 500, 'dryrun_windows': 200,
                           'positive_control_events': 200, 'concurrent_reads': 200,
                           'crash_points_killed': 2000}}
    return {'n': 60000, 'budget_s': 600, 'min_evals': 20000,
            'floors': {'faults_hit': 20000, 'points_write': 1500, 'points_rename': 1500,
                       'points_close': 1500, 'points_mkstemp': 1500, 'dryrun_windows': 1500,
                       'positive_control_events': 1500}}


def payload(rng, size, alphabet):
    if alphabet == 'ascii':
        unit = 'abcdefghij klmnop\n'
    elif alphabet == 'utf8':
        unit = u'héllo 世界 \U0001f600 café\n'
    else:
        unit = u'abc\udc80def\n'       # lone surrogate: encode(..., "ignore") drops it
    s = (unit * (size // len(unit) + 1))[:size]
    return 'NEW:' + s if size else ''


def setup_dir(base, cfg, rng):
    dst = os.path.join(base, 'out') if cfg['dir_exists'] else os.path.join(base, 'a', 'b', 'out')
    if cfg['dir_exists']:
        os.makedirs(dst)
    old = None
    if cfg['existing'] and cfg['dir_exists']:
        old = ('OLD content of %s\n' % cfg['name']) * 3
        with open(os.path.join(dst, cfg['name'] + cfg['suffix']), 'w') as f:
            f.write(old)
    return dst, old


def make_writer(cfg, dst):
    if cfg['writer'] == 'file':
        from pysmi.writer import FileWriter
        import pysmi.writer.localfile as wm
        w = FileWriter(dst)
        if not (cfg['suffix'] == '' and cfg.get('defaults')):
            w.setOptions(suffix=cfg['suffix'])
        return w, wm
    from pysmi.writer import PyFileWriter
    import pysmi.writer.pyfile as wm
    w = PyFileWriter(dst)
    if not (cfg['pyCompile'] and cfg.get('defaults')):
        w.setOptions(pyCompile=cfg['pyCompile'])    # else: the writer as constructed (byte-compiles by default)
    return w, wm


def judge(cfg, dst, old, data, comments, outcome, exc, fault, site, V, cell):
    """directory oracle after one putData() execution"""
    from pysmi import error
    from pysmi.compat import encode
    full = data
    if comments:
        full = '#\n' + ''.join(['# %s\n' % x for x in comments]) + '#\n' + data
    new_bytes = encode(full)
    target = cfg['name'] + cfg['suffix']
    listing = os.listdir(dst) if os.path.isdir(dst) else []
    stray = [f for f in listing if f != target and f != '__pycache__']
    content = None
    p = os.path.join(dst, target)
    if os.path.exists(p):
        with open(p, 'rb') as f:
            content = f.read()
    old_bytes = old.encode() if old is not None else None
    feat = dict(site=site, fault=(fault or 'none').split(':')[0], writer=cfg['writer'])
    if outcome == 'returned':
        # "the failure surfaces as the package's writer error": a step of storing the text (creating, writing,
        # closing, renaming the temporary file) that reported an error cannot end in a normal return - a
        # failing close() is how deferred-write file systems report that the data did not reach the disk
        if fault and fault.split(':')[0] in ('error', 'after') and site in SURFACING_SITES:
            V('failure_not_surfaced', '%r: %s failed with %s, yet putData returned normally' % (cell, site, fault), **feat)
        if content != new_bytes:
            V('return_without_full_content', '%r: putData returned normally but the destination holds %s '
              '(expected %d bytes)' % (cell, 'nothing' if content is None else '%d bytes' % len(content),
                                       len(new_bytes)), **feat)
    else:
        if not isinstance(exc, error.PySmiWriterError):
            V('not_writer_error', '%r: failure surfaced as %s: %s' % (cell, type(exc).__name__, exc), **feat)
        if content is not None and content != new_bytes and content != old_bytes:
            V('partial_destination', '%r: destination holds %d bytes, neither the previous (%s) nor the new (%d) '
              'content' % (cell, len(content), 'absent' if old_bytes is None else len(old_bytes), len(new_bytes)),
              **feat)
        if content is None and old_bytes is not None and site != 'py_compile.compile':
            V('destination_lost', '%r: the previous destination file disappeared' % (cell,), **feat)
    if content is not None and content != new_bytes and content != old_bytes and outcome == 'returned':
        pass
    if stray:
        V('temp_file_left', '%r: stray files after putData: %s' % (cell, stray), **feat)


def run_config(cfg, rng, res):
    base = tempfile.mkdtemp(prefix='verif-c13-', dir=env.scratch_root())
    data = payload(rng, cfg['size'], cfg['alphabet'])
    comments = ('generated', 'by verif') if cfg['comments'] else ()

    def V(monitor, detail, **features):
        res.violation(monitor, detail, replay={'config': cfg}, **features)

    try:
        # discovery
        d0 = os.path.join(base, 'disc')
        os.makedirs(d0)
        dst, old = setup_dir(d0, cfg, rng)
        w, wm = make_writer(cfg, dst)
        pl = faults.Plan()
        with faults.Patched(wm, pl):
            try:
                w.putData(cfg['name'], data, comments=comments)
                outcome, exc = 'returned', None
            except Exception as e:
                outcome, exc = 'raised', e
        judge(cfg, dst, old, data, comments, outcome, exc, None, 'none', V, dict(cfg, phase='discovery'))
        points = [(n, q) for n, q, dg, oc in pl.log if q in ERR_FOR]
        res.count('discovery_runs')
        for n, q in points:
            res.count('points_' + q.split('.')[-1])
        evals = 1
        for n, q in points:
            for fault in ERR_FOR[q]:
                if fault.startswith('short:') and not fault[6:].isdigit():
                    nb = len(data.encode('utf-8', 'ignore')) + (sum(len(c) + 3 for c in comments) + 4 if comments else 0)
                    k = nb // 2 if fault.endswith('half') else max(0, nb - 1)
                    if nb == 0:
                        continue
                    fault = 'short:%d' % k
                di = os.path.join(base, 'f%d' % evals)
                os.makedirs(di)
                dst, old = setup_dir(di, cfg, rng)
                w, wm = make_writer(cfg, dst)
                pl2 = faults.Plan(n, fault)
                with faults.Patched(wm, pl2):
                    try:
                        w.putData(cfg['name'], data, comments=comments)
                        outcome, exc = 'returned', None
                    except Exception as e:
                        outcome, exc = 'raised', e
                evals += 1
                if not pl2.hit:
                    res.count('fault_not_reached')
                    continue
                res.count('faults_hit')
                res.cell('fault:%s:%s' % (q, fault.split(':')[0] + (':' + fault.split(':')[1] if fault.startswith(('error', 'after', 'exc')) else '')))
                judge(cfg, dst, old, data, comments, outcome, exc, fault, q, V,
                      dict(cfg, site=q, fault=fault, call_log=[(a, b, str(d)) for a, b, c, d in pl2.log]))
                shutil.rmtree(di, ignore_errors=True)
        res.evals = evals
        return points
    finally:
        shutil.rmtree(base, ignore_errors=True)


def crash_points(cfg, rng, res):
    """SIGKILL at every discovered call site (before / after the call, mid-write): the destination
    must hold its previous complete content or the complete new content (temp files may remain)."""
    from pysmi.compat import encode
    base = tempfile.mkdtemp(prefix='verif-c13k-', dir=env.scratch_root())
    data = payload(rng, cfg['size'], cfg['alphabet'])
    try:
        d0 = os.path.join(base, 'disc')
        os.makedirs(d0)
        dst, old = setup_dir(d0, cfg, rng)
        w, wm = make_writer(cfg, dst)
        pl = faults.Plan()
        with faults.Patched(wm, pl):
            w.putData(cfg['name'], data)
        points = [(n, q) for n, q, dg, oc in pl.log if q in ERR_FOR]
        k = 0
        for n, q in points:
            kinds = ['kill_before', 'kill_after'] + (['kill_mid'] if q.endswith('.write') else [])
            for kind in kinds:
                k += 1
                di = os.path.join(base, 'k%d' % k)
                os.makedirs(di)
                dst, old = setup_dir(di, cfg, rng)
                pid = os.fork()
                if pid == 0:
                    try:
                        w2, wm2 = make_writer(cfg, dst)
                        with faults.Patched(wm2, faults.Plan(n, kind)):
                            w2.putData(cfg['name'], data)
                    finally:
                        os._exit(0)
                _pid, status = os.waitpid(pid, 0)
                killed = os.WIFSIGNALED(status) and os.WTERMSIG(status) == 9
                res.count('crash_points_run')
                if killed:
                    res.count('crash_points_killed')
                target = os.path.join(dst, cfg['name'] + cfg['suffix'])
                content = None
                if os.path.exists(target):
                    with open(target, 'rb') as f:
                        content = f.read()
                ok = (content is None and old is None) or (old is not None and content == old.encode()) or \
                    content == encode(data)
                res.cell('crash:%s:%s' % (q, kind))
                if not ok:
                    res.violation('crash_partial_destination', '%r: process killed %s %s; destination holds %s bytes, '
                                  'neither the previous nor the new complete content' % (
                                      cfg, kind, q, 'no' if content is None else len(content)),
                                  replay={'config': cfg}, site=q, fault=kind, writer=cfg['writer'])
                shutil.rmtree(di, ignore_errors=True)
        res.evals = max(1, k)
    finally:
        shutil.rmtree(base, ignore_errors=True)


def dryrun_window(cfg, rng, res):
    """dryRun / writeMibs=False: the audit hook must see no mutation below the destination"""
    from pysmi.compiler import MibCompiler
    from pysmi.parser.smi import parserFactory
    from pysmi.codegen import JsonCodeGen, PySnmpCodeGen
    from pysmi.reader.callback import CallbackReader
    from pysmi.searcher.stub import StubSearcher
    from vlib import orch
    base = tempfile.mkdtemp(prefix='verif-c13d-', dir=env.scratch_root())

    def V(monitor, detail, **features):
        res.violation(monitor, detail, replay={'config': cfg}, **features)

    try:
        dst, old = setup_dir(base, cfg, rng)
        before = faults.snapshot(base)
        w, wm = make_writer(cfg, dst)
        mode = rng.choice(['putData_dryRun', 'compile_dryRun', 'compile_dryRun', 'compile_noWrites'])
        texts = dict((b, orch.base_text(b)) for b in orch.BASE)
        # two or three modules are generated by the one call: every one of them is a dry run
        deps = rng.choice([[], ['BB-MIB'], ['BB-MIB', 'CC-MIB']])
        texts['AA-MIB'] = orch.module_text('AA-MIB', deps, 's0')
        for dmod in deps:
            texts[dmod] = orch.module_text(dmod, [], 's0')
        with fsmon.Watch(base) as wt:
            if mode == 'putData_dryRun':
                w.putData(cfg['name'], payload(rng, cfg['size'], cfg['alphabet']), dryRun=True)
            else:
                c = MibCompiler(parserFactory()(), JsonCodeGen() if cfg['writer'] == 'file' else PySnmpCodeGen(), w)
                c.addSources(CallbackReader(lambda n, ctx: texts.get(n)))
                c.addSearchers(StubSearcher(*orch.BASE))
                if mode == 'compile_dryRun':
                    opts = rng.choice([{'dryRun': True}, {'dryRun': True, 'writeMibs': True},
                                       {'dryRun': True, 'writeMibs': False}])
                else:
                    opts = rng.choice([{'writeMibs': False}, {'writeMibs': False, 'dryRun': False},
                                       {'writeMibs': False, 'dryRun': None}])
                opts = dict(opts, **rng.choice([{}, {'rebuild': True}, {'genTexts': True}, {'ignoreErrors': True}]))
                r = c.compile('AA-MIB', **opts)
                if r.get('AA-MIB') != 'compiled':
                    V('dryrun_compile_status', '%s: AA-MIB is %r' % (mode, r.get('AA-MIB')))
                if opts.get('dryRun') and cfg['writer'] == 'file' and rng.random() < 0.8:
                    # the index of what was (not) written, built in dry-run mode as mibdump does
                    c.buildIndex(r, dryRun=True, **rng.choice([{}, {'ignoreErrors': True}]))
                    res.count('dryrun_index_builds')
                    mode += '+buildIndex'
        after = faults.snapshot(base)
        res.count('dryrun_windows')
        if wt.events:
            V('dryrun_fs_event', '%s with %r: filesystem mutation events %s' % (mode, cfg, wt.events[:5]), mode=mode)
        if before != after:
            V('dryrun_tree_changed', '%s with %r: tree differs %s' % (
                mode, cfg, sorted(set(after or {}) ^ set(before or {}))[:5]), mode=mode)
        # positive control: the same window with a real write must be seen by the sanitizer
        with fsmon.Watch(base) as wt2:
            w.putData(cfg['name'], 'control')
        res.count('positive_control_events', len(wt2.events))
        if not wt2.events:
            res.count('positive_control_blind')
    finally:
        shutil.rmtree(base, ignore_errors=True)


def callback_writer(rng, res):
    from pysmi.writer import CallbackWriter
    from pysmi import error

    def boom(name, data, ctx):
        raise rng.choice([ValueError, OSError, KeyError, RuntimeError])('user callback failed')
    w = CallbackWriter(boom)
    try:
        w.putData('X', 'data')
        res.violation('callback_error_swallowed', 'raising callback did not surface')
    except error.PySmiWriterError:
        res.count('callback_errors_wrapped')
    except Exception as exc:
        res.violation('callback_not_writer_error', 'callback failure surfaced as %r' % exc)
    seen = []
    CallbackWriter(lambda n, d, c: seen.append((n, d))).putData('Y', 'zz', dryRun=True)
    if seen:
        res.violation('callback_dryrun_called', 'callback invoked in dry-run mode')


def run_case(idx, rng, tier, res):
    cfg = {
        'writer': rng.choice(['file', 'py']),
        'pyCompile': rng.random() < 0.6,
        'defaults': rng.random() < 0.4,
        'existing': rng.random() < 0.5,
        'dir_exists': rng.random() < 0.75,
        'size': rng.choice(SIZES + ([1 << 20] if tier == 'thorough' and rng.random() < 0.1 else [])),
        'alphabet': rng.choice(['ascii', 'ascii', 'utf8', 'surrogate']),
        'comments': rng.random() < 0.2,
        'name': rng.choice(['FOO-MIB', 'Bar-Mib2', 'x']),
    }
    cfg['suffix'] = rng.choice(['', '.json', '.txt']) if cfg['writer'] == 'file' else '.py'
    if idx % 7 == 5:
        crash_points(cfg, rng, res)
        res.sig = harness.stable_hash(['crash', cfg])
        res.nontrivial = True
        return
    if idx % 7 == 6:
        dryrun_window(cfg, rng, res)
        callback_writer(rng, res)
        res.sig = harness.stable_hash(['dry', cfg])
        res.nontrivial = True
        res.cell('dryrun')
        return
    points = run_config(cfg, rng, res)
    res.sig = harness.stable_hash(cfg)
    res.nontrivial = any(q.split('.')[-1] in ('write', 'close', 'rename', 'mkstemp') for n, q in points)
    res.cell('cfg:%s:%s:%s' % (cfg['writer'], 'existing' if cfg['existing'] else 'fresh',
                              'dir' if cfg['dir_exists'] else 'nodir'))
    if idx % 300 == 0:
        res.sample = {'config': cfg, 'fault_points_discovered': [q for n, q in points]}


# ------------------------------------------------------------------------------ parent-side phases

def complete_payload(content):
    """is `content` exactly one self-describing payload?"""
    if not content.startswith('# ') or not content.endswith(':END\n'):
        return False
    try:
        wid, seq, ln, rest = content[2:].split(':', 3)
        filler = rest[:-len(':END\n')]
        return len(filler) == int(ln) and filler == ('w%s-%d ' % (wid, int(seq))) * (len(filler) // len('w%s-%d ' % (wid, int(seq))))
    except ValueError:
        return False


def concurrent_round(kind, nwriters, count, res, ridx):
    base = tempfile.mkdtemp(prefix='verif-c13c-', dir=env.scratch_root())
    dst = os.path.join(base, 'out')
    os.makedirs(dst)
    target = os.path.join(dst, 'SHARED-MIB' + ('.txt' if kind == 'file' else '.py'))
    child = os.path.join(env.VERIF, 'vlib', 'c13_child.py')
    procs = [subprocess.Popen([env.PYTHON, child, dst, kind, str(w), str(count), 'SHARED-MIB'],
                              env=env.child_env(), stdout=subprocess.PIPE, stderr=subprocess.STDOUT)
             for w in range(nwriters)]
    seen = set()
    reads = 0
    bad = None
    deadline = time.time() + 120
    try:
        while any(p.poll() is None for p in procs) and time.time() < deadline:
            try:
                with open(target, 'rb') as f:
                    content = f.read().decode('utf-8', 'replace')
            except (IOError, OSError):
                continue
            reads += 1
            if not complete_payload(content):
                bad = content
                break
            seen.add(content.split(':', 2)[0] + ':' + content.split(':', 2)[1])
        for p in procs:
            try:
                out, _ = p.communicate(timeout=60)
            except subprocess.TimeoutExpired:
                p.kill()
                out = b'timeout'
            if p.returncode != 0:
                res.violation('concurrent_writer_failed', 'writer exited %s: %s' % (
                    p.returncode, out.decode('utf-8', 'replace')[-400:]), kind=kind)
        if bad is not None:
            res.violation('concurrent_torn_read', 'reader observed a destination that is not one complete '
                          'payload (%d bytes, head %r, tail %r)' % (len(bad), bad[:60], bad[-40:]), kind=kind)
        with open(target, 'rb') as f:
            final = f.read().decode('utf-8', 'replace')
        if not complete_payload(final):
            res.violation('concurrent_final_torn', 'final destination is not one complete payload', kind=kind)
        stray = [f for f in os.listdir(dst) if f != os.path.basename(target) and f != '__pycache__']
        if stray:
            res.violation('concurrent_temp_left', 'temporary files left after quiescence: %s' % stray[:5], kind=kind)
        res.count('concurrent_rounds')
        res.count('concurrent_reads', reads)
        res.count('concurrent_distinct_versions_seen', len(seen))
    finally:
        shutil.rmtree(base, ignore_errors=True)


def extra(tier, seed, emit):
    res = harness.Result(-1)
    res.evals = 0
    rounds = 4 if tier == 'quick' else 40
    for r in range(rounds):
        kind = 'file' if r % 2 == 0 else 'py'
        concurrent_round(kind, 4 if tier == 'quick' else 8, 40 if tier == 'quick' else 60, res, r)
        res.evals += 1
    res.sig = 'concurrent'
    res.nontrivial = True
    res.sample = {'phase': 'concurrent writers', 'rounds': rounds,
                  'distinct_versions_observed_by_reader': res.counts.get('concurrent_distinct_versions_seen')}
    emit(res)
    if tier == 'thorough':
        try:
            from vlib import crashpoints
            res2 = harness.Result(-2)
            crashpoints.run(res2, seed)
            emit(res2)
        except ImportError:
            pass
