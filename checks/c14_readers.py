"""C14 - readers return the right file for a module name, incl. sub-directories and nested ZIPs."""
import io
import os
import shutil
import tempfile
import time
import datetime
import zipfile

from vlib import harness, env

ID = 'C14'
LEVEL = 'exploration'
RULE = ('random directory trees (depth <=4, 1-30 files, duplicate basenames, directories named like '
        'modules, near-miss names, arbitrary bytes incl. invalid UTF-8, .index files) and the same '
        'trees packed into ZIP archives with ZIPs nested up to 3 deep; every setting of the four '
        'matching options; 6 lookups per tree (present in every variant class, absent, near miss); '
        'judged by a reference written from docs/mibdump.rst: a generous *allowed* variant set '
        '(soundness: never an unrelated file, exact decoded content and mtime of that very file) and '
        'a conservative *promised* set (completeness: not-found only if no promised variant exists); '
        'plus the URL -> reader table; plus the HTTP reader built from an http:// URL against a loopback web '
        'site (documents answering 200/403/410/500, Last-Modified present, absent or malformed; same '
        'allowed/promised reference, and a server-side log showing that only variants of the requested '
        'name were ever asked for); non-trivial = hit below the root directory or inside a nested '
        'archive; distinct = hash(tree, options, name)')
ASSUMPTIONS = ['files are non-empty and far below maxMibSize', 'ambiguous URLs (file://x.zip, zip://dir) '
               'are recorded, not judged', 'the HTTP reader is exercised against a loopback site under TZ=UTC '
               '(plain http only); the FTP reader is only constructed, never used']

EXTS = ['', '.txt', '.mib', '.my', '.TXT', '.MIB', '.MY']
STEMS = ['FOO', 'Bar', 'ietf-x', 'A1', 'IF', 'snmpV2']


def plan(tier, seed):
    if tier == 'quick':
        return {'n': 24000, 'budget_s': 40, 'min_evals': 30000,
                'floors': {'lookups': 30000, 'hits_checked': 8000, 'notfound_checked': 8000,
                           'hits_in_subdir': 800, 'hits_in_nested_zip': 800, 'index_hits': 200,
                           'urls_judged': 2000, 'http_hits_checked': 300, 'http_notfound_checked': 300,
                           'http_requests_seen': 8000}}
    return {'n': 400000, 'budget_s': 600, 'min_evals': 100000,
            'floors': {'lookups': 100000, 'hits_checked': 30000, 'notfound_checked': 30000,
                       'hits_in_subdir': 3000, 'hits_in_nested_zip': 3000, 'index_hits': 800,
                       'urls_judged': 5000, 'http_hits_checked': 1000, 'http_notfound_checked': 1000,
                       'http_requests_seen': 30000}}


# ------------------------------------------------------------------------------ reference

def has_mib_suffix(s):
    return s.lower().endswith('-mib')


def base_names(name, o):
    b = []
    if o['originalMatching']:
        b.append(name)
    if o['uppercaseMatching']:
        b.append(name.upper())
    if o['lowcaseMatching']:
        b.append(name.lower())
    return b


def promised(name, o, exts):
    """variants the documentation clearly promises"""
    b = base_names(name, o)
    names = list(b)
    if o['fuzzyMatching']:
        if has_mib_suffix(name):
            names += [x[:-4] for x in b]
        else:
            names += [(name + '-mib').upper(), (name + '-mib').lower()] if b else []
    return set(x + e for x in names for e in exts)


def allowed(name, o, exts):
    """generous superset: anything a reader may legitimately return for `name`"""
    b = base_names(name, o)
    names = set(b)
    if o['fuzzyMatching']:
        for x in list(b) + [name]:
            i = x.lower().find('-mib')
            if i != -1:
                names.add(x[:i])
            if x.lower().endswith('-mib'):
                names.add(x[:-4])
            for sfx in ('-mib', '-MIB'):
                names.add(x + sfx)
                names.add((x + sfx).upper())
                names.add((x + sfx).lower())
    return set(x + e for x in names for e in exts)


# ------------------------------------------------------------------------------ trees

def rand_bytes(rng):
    kind = rng.random()
    if kind < 0.5:
        return ('-- text %d\nX DEFINITIONS ::= BEGIN END\n' % rng.randint(0, 10 ** 9)).encode()
    if kind < 0.75:
        return (u'caf\xe9 世界 %d\n' % rng.randint(0, 10 ** 9)).encode('utf-8')
    return bytes(bytearray(rng.randint(0, 255) for _ in range(rng.randint(1, 60)))) + b'x'


def gen_tree(rng):
    """list of (relative dir parts, basename, bytes, mtime); plus module-named directories"""
    files = []
    dirs = [()]
    for _ in range(rng.randint(0, 5)):
        parent = rng.choice(dirs)
        if len(parent) >= 4:
            continue
        dn = rng.choice(['sub', 'mibs', 'ietf', 'v2', 'FOO-MIB', 'x.d'])
        dirs.append(parent + (dn,))
    n = rng.randint(1, 30 if rng.random() < 0.2 else 10)
    for _ in range(n):
        stem = rng.choice(STEMS)
        style = rng.random()
        if style < 0.45:
            nm = stem + '-MIB'
        elif style < 0.6:
            nm = stem
        elif style < 0.75:
            nm = (stem + '-mib').lower()
        elif style < 0.85:
            nm = stem + '-MIBS'      # near miss
        else:
            nm = 'X' + stem + '-MIB'  # near miss
        if rng.random() < 0.3:
            nm = rng.choice([nm.upper(), nm.lower()])
        nm += rng.choice(EXTS + ['', '', '.bak'])
        files.append((rng.choice(dirs), nm, rand_bytes(rng), rng.choice([1000000000, 1500000000, 1600000000 + rng.randint(0, 10 ** 6) * 2])))
    return dirs, files


def write_tree(root, dirs, files):
    seen = set()
    for d in dirs:
        os.makedirs(os.path.join(root, *d), exist_ok=True)
    out = []
    for d, nm, data, mt in files:
        p = os.path.join(root, *(d + (nm,)))
        if p in seen or os.path.isdir(p):
            continue
        seen.add(p)
        with open(p, 'wb') as f:
            f.write(data)
        os.utime(p, (mt, mt))
        out.append((d, nm, data, mt))
    return out


def dt(mt):
    t = time.localtime(mt - mt % 2)
    return t[:6]


def build_zip(rng, files, depth):
    """pack files into a zip; some go into nested zips.  Returns bytes and [(basename, data, dt, nest)]"""
    buf = io.BytesIO()
    listing = []
    with zipfile.ZipFile(buf, 'w') as z:
        outer, inner = [], []
        for f in files:
            (inner if (depth > 0 and rng.random() < 0.45) else outer).append(f)
        for d, nm, data, mt in outer:
            zi = zipfile.ZipInfo('/'.join(d + (nm,)), date_time=dt(mt))
            z.writestr(zi, data)
            listing.append((nm, data, dt(mt), 0))
        if rng.random() < 0.3:
            z.writestr(zipfile.ZipInfo('emptydir/', date_time=dt(1500000000)), b'')
        if inner:
            sub, sublist = build_zip(rng, inner, depth - 1)
            z.writestr(zipfile.ZipInfo(rng.choice(['in', 'dir/in', 'a/b/in']) + '%d' % depth +
                                       rng.choice(['.zip', '.ZIP']), date_time=dt(1400000000)), sub)
            listing += [(nm, data, d_, nest + 1) for nm, data, d_, nest in sublist]
    return buf.getvalue(), listing


# ------------------------------------------------------------------------------ the case

def lookups(rng, files):
    names = set()
    for d, nm, data, mt in files[:]:
        stem = nm
        for e in sorted(EXTS + ['.bak'], key=len, reverse=True):
            if e and stem.endswith(e):
                stem = stem[:-len(e)]
                break
        names.add(stem)
        names.add(stem.upper())
        if stem.lower().endswith('-mib'):
            names.add(stem[:-4])
        else:
            names.add(stem + '-MIB')
    names.update(['NOPE-MIB', 'FOO-MI', 'OO-MIB', 'Bar'])
    names = sorted(n for n in names if n)
    rng.shuffle(names)
    return names[:6]


def case_damaged(idx, rng, res):
    """archives that are missing, empty, cut short or not archives at all, and healthy archives holding
    such a thing as a nested member: nothing inside them exists - not-found (or, when errors are not
    ignored, the package error), never another exception; healthy members next to them are still served"""
    from pysmi.reader import ZipReader
    from pysmi import error
    base = tempfile.mkdtemp(prefix='verif-c14z-', dir=env.scratch_root())
    try:
        good = io.BytesIO()
        with zipfile.ZipFile(good, 'w') as z:
            z.writestr(zipfile.ZipInfo('FOO-MIB.txt', date_time=dt(1500000000)), b'FOO text\n')
        good = good.getvalue()
        how = rng.choice(['missing', 'empty', 'cut', 'garbage', 'text', 'nested_cut', 'nested_garbage', 'empty_member'])
        zp = os.path.join(base, 'a.zip')
        nested = how.startswith('nested') or how == 'empty_member'
        if how == 'empty':
            blob = b''
        elif how == 'cut':
            blob = good[:rng.randint(1, len(good) - 1)]
        elif how == 'garbage':
            blob = bytes(bytearray(rng.randint(0, 255) for _ in range(rng.randint(1, 300))))
        elif how == 'text':
            blob = b'FOO-MIB DEFINITIONS ::= BEGIN END\n'
        elif nested:
            inner = {'nested_cut': good[:len(good) // 2], 'nested_garbage': b'PK\x03\x04 not really', 'empty_member': good}[how]
            buf = io.BytesIO()
            with zipfile.ZipFile(buf, 'w') as z:
                z.writestr(zipfile.ZipInfo('BAR-MIB.mib', date_time=dt(1500000000)), b'BAR text\n')
                z.writestr(zipfile.ZipInfo('inner.zip', date_time=dt(1500000000)), inner)
                if how == 'empty_member':
                    z.writestr(zipfile.ZipInfo('EMPTY-MIB.txt', date_time=dt(1500000000)), b'')
            blob = buf.getvalue()
        if how != 'missing':
            with open(zp, 'wb') as f:
                f.write(blob)
        strict = rng.random() < 0.4
        cell = {'damage': how, 'ignoreErrors': not strict}
        outcomes = {}
        try:
            reader = ZipReader(zp, ignoreErrors=not strict)
        except Exception as exc:
            res.violation('reader_exception', 'ZipReader(%s archive) raised %r' % (how, exc), replay=cell, kind='zip',
                          exc=type(exc).__name__)
            return
        for name in ('FOO-MIB', 'BAR-MIB', 'EMPTY-MIB', 'NOSUCH-MIB'):
            res.count('lookups')
            res.count('lookups_in_damaged_archives')
            try:
                info, text = reader.getData(name)
                outcomes[name] = ('hit', text)
            except error.PySmiReaderFileNotFoundError:
                outcomes[name] = ('notfound', None)
            except error.PySmiError as exc:
                outcomes[name] = ('pkgerror', str(exc))
            except Exception as exc:
                res.violation('reader_exception', 'zip reader over a %s archive raised %s: %s for %r' % (
                    how, type(exc).__name__, exc, name), replay=cell, exc=type(exc).__name__, kind='zip')
                outcomes[name] = ('other', None)
        want = {}
        if how == 'empty_member':
            want = {'FOO-MIB': ('hit', 'FOO text\n'), 'BAR-MIB': ('hit', 'BAR text\n')}
        elif nested:
            want = {'BAR-MIB': ('hit', 'BAR text\n')}
        for name, oc in outcomes.items():
            if oc[0] == 'other':
                continue
            if name in want:
                if oc != want[name]:
                    res.violation('damaged_neighbour', '%s archive: %s is %r, expected %r' % (how, name, oc, want[name]),
                                  replay=cell, kind='zip')
            elif oc[0] == 'hit':
                res.violation('unrelated_file', '%s archive: asked %r, got %r' % (how, name, oc[1][:40]), replay=cell,
                              kind='zip')
            elif oc[0] == 'pkgerror' and not strict:
                res.violation('reader_exception', '%s archive, errors ignored: %r raised %s' % (how, name, oc[1][:120]),
                              replay=cell, kind='zip', exc='PySmiError')
        res.cell('damaged:' + how)
        res.evals = len(outcomes)
        res.sig = harness.stable_hash([how, strict, blob[:40] if how != 'missing' else b''])
        res.nontrivial = True
    finally:
        shutil.rmtree(base, ignore_errors=True)


def run_case(idx, rng, tier, res):
    if idx % 10 == 9:
        return case_urls(idx, rng, res)
    if idx % 20 == 8:
        return case_damaged(idx, rng, res)
    if idx % 37 == 17:      # 37 is coprime to the number of shards: spread over all workers
        return case_http(idx, rng, res)
    from pysmi.reader import FileReader, ZipReader
    from pysmi import error
    base = tempfile.mkdtemp(prefix='verif-c14-', dir=env.scratch_root())
    try:
        # member times of an archive are local times: run under several zones, with and without
        # daylight saving rules (POSIX TZ strings need no zone database)
        tz = rng.choice(['UTC', 'CET-1CEST,M3.5.0,M10.5.0/3', 'EST5EDT,M3.2.0,M11.1.0',
                         'NZST-12NZDT,M9.5.0,M4.1.0/3', 'IST-5:30'])
        os.environ['TZ'] = tz
        time.tzset()
        res.cell('tz:' + tz.split(',')[0])
        dirs, files = gen_tree(rng)
        o = dict((k, rng.random() < 0.75) for k in ('originalMatching', 'uppercaseMatching',
                                                     'lowcaseMatching', 'fuzzyMatching'))
        kind = 'zip' if idx % 2 else 'dir'
        size_limit = rng.choice([None, None, None, 40])
        exts = list(EXTS)
        index = {}
        recursive = True
        strict = False
        if kind == 'dir':
            root = os.path.join(base, 'tree')
            files = write_tree(root, dirs, files)
            if rng.random() < 0.06:
                # hostile furniture: a link back to the parent (a cycle for a naive walk) and a dangling
                # link named like a MIB file - neither is a file that could be returned
                sub = [d for d in dirs if d]
                try:
                    if sub:
                        os.symlink('..', os.path.join(root, *(rng.choice(sub) + ('up',))))
                    dang = rng.choice(STEMS) + '-MIB' + rng.choice(EXTS)
                    if not os.path.lexists(os.path.join(root, dang)):
                        os.symlink('nowhere-at-all', os.path.join(root, dang))
                    res.count('trees_with_link_cycles_and_dangling_links')
                except OSError:
                    pass
            if rng.random() < 0.25 and files:
                # .index file in the root mapping a name to some file (maybe absent)
                for _ in range(rng.randint(1, 2)):
                    d, nm, data, mt = rng.choice(files)
                    index[rng.choice(['FOO-MIB', 'IDX-MIB', 'Bar-MIB'])] = nm if rng.random() < 0.8 else 'gone.txt'
                with open(os.path.join(root, '.index'), 'w') as f:
                    for k, v in index.items():
                        f.write('%s %s\n' % (k, v))
            recursive = rng.random() < 0.8
            strict = rng.random() < 0.35
            reader = FileReader(root, recursive=recursive, ignoreErrors=not strict).setOptions(**o)
            if strict:
                res.count('readers_not_ignoring_errors')
            if size_limit:
                reader.setOptions(maxMibSize=size_limit)
            universe = [(nm, data, mt, len(d)) for d, nm, data, mt in files if recursive or not d]
            dirnames = set(d[-1] for d in dirs if d)
        else:
            # unique path per file inside the archive
            uniq = {}
            for d, nm, data, mt in files:
                uniq[d + (nm,)] = (d, nm, data, mt)
            blob, listing = build_zip(rng, list(uniq.values()), rng.randint(0, 3))
            zp = os.path.join(base, 'a.zip')
            with open(zp, 'wb') as f:
                f.write(blob)
            reader = ZipReader(zp).setOptions(**o)
            if size_limit:
                reader.setOptions(maxMibSize=size_limit)
            universe = [(nm, data, time.mktime(datetime.datetime(*d_).timetuple()), nest)
                        for nm, data, d_, nest in listing]
            dirnames = set()
        names = lookups(rng, files) + (list(index)[:1] if index else [])
        res.evals = len(names)
        for name in names:
            res.count('lookups')
            try:
                info, text = reader.getData(name)
                got = 'hit'
            except error.PySmiReaderFileNotFoundError:
                got = 'notfound'
            except (error.PySmiReaderError, IOError) as exc:
                got = 'readererror'      # incl. "MIB too large" (ZipReader lets the IOError through)
            except Exception as exc:
                if strict and type(exc) is error.PySmiError:
                    got = 'readererror'     # ignoreErrors=False: access problems (incl. oversize) are raised
                else:
                    res.violation('reader_exception', '%s reader raised %s: %s for %r (options %r)' % (
                        kind, type(exc).__name__, exc, name, o), replay={'name': name, 'options': o},
                        exc=type(exc).__name__, kind=kind)
                continue
            cell = {'reader': kind, 'name': name, 'options': o, 'recursive': recursive, 'index': index,
                    'files': sorted(set(u[0] for u in universe))[:40]}
            if name in index:
                allow = set([index[name]])
                promise = set([index[name]])
            else:
                allow = allowed(name, o, exts)
                promise = promised(name, o, exts)
            if got == 'hit':
                res.count('hits_checked')
                cands = [u for u in universe if u[0] == info.file]
                if info.file not in allow:
                    res.violation('unrelated_file', 'asked %r got file %r which is no variant of it (%r)' % (
                        name, info.file, cell), replay=cell, kind=kind)
                elif not cands:
                    res.violation('file_not_in_tree', 'asked %r got %r which is not in the tree' % (name, info.file),
                                  replay=cell, kind=kind)
                else:
                    ok = [u for u in cands if u[1].decode('utf-8', 'ignore') == text]
                    if not ok:
                        res.violation('content_differs', 'asked %r: content of %r is not the decoded bytes of any '
                                      'file with that name' % (name, info.file), replay=cell, kind=kind)
                    elif not any(int(u[2]) == int(info.mtime) for u in ok):
                        res.violation('mtime_differs', 'asked %r: mtime %r, file(s) have %r' % (
                            name, info.mtime, [u[2] for u in ok]), replay=cell, kind=kind)
                    else:
                        depth = max(u[3] for u in ok)
                        if depth > 0:
                            res.count('hits_in_subdir' if kind == 'dir' else 'hits_in_nested_zip')
                            res.nontrivial = True
                if name in index:
                    res.count('index_hits')
                res.cell('%s:hit' % kind)
            elif got == 'notfound':
                res.count('notfound_checked')
                present = sorted(set(u[0] for u in universe if u[0] in promise))
                if size_limit and any(len(u[1]) >= size_limit for u in universe if u[0] in allow):
                    present = []        # an over-long variant legitimately ends the lookup with an error
                if present:
                    res.violation('variant_not_found', 'asked %r (options %r): not found although %s exist(s) '
                                  '(%r)' % (name, o, present, cell), replay=cell, kind=kind,
                                  fuzzy=bool(o['fuzzyMatching']), lowcase=bool(o['lowcaseMatching']),
                                  anybase=bool(base_names(name, o)))
                res.cell('%s:notfound' % kind)
            else:
                res.cell('%s:readererror' % kind)
                # a reader error is an answer only where the documentation gives one: a size limit hit, or
                # errors not being ignored; anywhere else a lookup ends in a file or in not-found
                if not size_limit and not strict:
                    present = sorted(set(u[0] for u in universe if u[0] in promise))
                    res.violation('reader_error_unexpected', 'asked %r (options %r): the reader raised its error although '
                                  'no size limit is set and errors are ignored; promised variants present: %s (%r)' % (
                                      name, o, present, cell), replay=cell, kind=kind)
        res.sig = harness.stable_hash([kind, sorted(o.items()), [(d, n) for d, n, _x, _m in files]])
        if idx % 1500 in (0, 1):
            res.sample = {'reader': kind, 'options': o, 'files': ['/'.join(d + (n,)) for d, n, _x, _m in files][:20],
                          'lookups': names}
    finally:
        shutil.rmtree(base, ignore_errors=True)


def case_http(idx, rng, res):
    """the HTTP reader against a loopback web site (vlib/httpsite.py): a flat set of documents named like
    the files of the tree generator, some answering 403/500, some without or with a malformed
    Last-Modified header; the reader is built from an http:// URL (with and without the @mib@ mark).
    Client side: a hit is a document whose name is an allowed variant, answered 200, with exactly its
    decoded bytes (and, when the header is well formed, its time stamp; otherwise the time of the
    call); not-found only if no promised variant answers 200.  Server side: every location the reader
    asked for is the template filled with an allowed variant of the requested name - nothing else is
    ever requested."""
    import calendar
    from vlib import httpsite
    from pysmi.reader import getReadersFromUrls, HttpReader
    from pysmi import error
    port = httpsite.port()
    if port is None:
        res.count('http_site_unavailable')
        res.evals = 0
        res.sig = 'nohttp'
        return
    for k in ('http_proxy', 'HTTP_PROXY', 'all_proxy', 'ALL_PROXY'):
        os.environ.pop(k, None)
    os.environ['no_proxy'] = '*'
    os.environ['TZ'] = 'UTC'     # Last-Modified is GMT; the reader converts it with the local zone's rules
    time.tzset()
    dirs, files = gen_tree(rng)
    o = dict((k, rng.random() < 0.75) for k in ('originalMatching', 'uppercaseMatching',
                                                 'lowcaseMatching', 'fuzzyMatching'))
    magic = rng.random() < 0.6
    prefix = '/' + rng.choice(['mibs', 'a/b', 'site-%d' % rng.randint(0, 99)]) + '/'
    suffix = rng.choice(['', '', '.txt', '/raw']) if magic else ''
    table = {}
    docs = {}
    for d, nm, data, mt in files:
        if nm in docs:
            continue
        r = rng.random()
        status = 200 if r < 0.8 else rng.choice([403, 500, 410])
        hk = rng.random()
        if hk < 0.7:
            lastmod = time.strftime('%a, %d %b %Y %H:%M:%S GMT', time.gmtime(mt))
            stamp = mt
        elif hk < 0.85:
            lastmod, stamp = None, None
        else:
            lastmod, stamp = rng.choice(['yesterday', '2020-01-01T00:00:00Z', '']), None
        docs[nm] = (status, data, stamp)
        table[prefix + nm + suffix] = (status, data, lastmod)
    httpsite.publish(table)
    url = 'http://127.0.0.1:%d%s%s' % (port, prefix, ('@mib@' + suffix) if magic else '')
    rs = getReadersFromUrls(url, **o)
    if len(rs) != 1 or type(rs[0]) is not HttpReader:
        res.violation('url_reader_kind', 'URL %r mapped to %r, expected HttpReader' % (url, rs), replay={'url': url})
        return
    reader = rs[0]
    names = lookups(rng, files)[:4]
    res.evals = len(names)
    seen_requests = 0
    for name in names:
        res.count('lookups')
        res.count('http_lookups')
        cell = {'reader': 'http', 'url': url, 'name': name, 'options': o,
                'documents': sorted('%s:%d' % (k, v[0]) for k, v in docs.items())[:40]}
        allow = allowed(name, o, EXTS)
        promise = promised(name, o, EXTS)
        t0 = time.time()
        try:
            info, text = reader.getData(name)
            got = 'hit'
        except error.PySmiReaderFileNotFoundError:
            got = 'notfound'
        except Exception as exc:
            res.violation('reader_exception', 'http reader raised %s: %s for %r (options %r)' % (
                type(exc).__name__, exc, name, o), replay=cell, exc=type(exc).__name__, kind='http')
            continue
        t1 = time.time()
        log = httpsite.requests()
        asked = [p for p, _h in log[seen_requests:]]
        seen_requests = len(log)
        res.count('http_requests_seen', len(asked))
        for p in asked:
            ok = p.startswith(prefix) and p.endswith(suffix) and \
                p[len(prefix):len(p) - len(suffix) if suffix else len(p)] in allow
            if not ok:
                res.violation('unrelated_location_requested', 'asked %r: the reader requested %r, which is not the '
                              'template %r filled with a variant of that name' % (name, p, url), replay=cell, kind='http')
                break
        if got == 'hit':
            res.count('hits_checked')
            res.count('http_hits_checked')
            doc = docs.get(info.file)
            if info.file not in allow:
                res.violation('unrelated_file', 'asked %r got document %r which is no variant of it (%r)' % (
                    name, info.file, cell), replay=cell, kind='http')
            elif doc is None or doc[0] != 200:
                res.violation('file_not_in_tree', 'asked %r got %r which the site does not serve (%r)' % (
                    name, info.file, doc and doc[0]), replay=cell, kind='http')
            elif doc[1].decode('utf-8', 'ignore') != text:
                res.violation('content_differs', 'asked %r: content of %r is not the decoded body of that '
                              'document' % (name, info.file), replay=cell, kind='http')
            elif doc[2] is not None and int(info.mtime) != int(doc[2]):
                res.violation('mtime_differs', 'asked %r: mtime %r, Last-Modified says %r' % (
                    name, info.mtime, doc[2]), replay=cell, kind='http')
            elif doc[2] is None and not (t0 - 2 <= info.mtime <= t1 + 2):
                res.violation('mtime_differs', 'asked %r: no usable Last-Modified, mtime %r is not the time of the '
                              'call (%r)' % (name, info.mtime, t0), replay=cell, kind='http')
            else:
                res.nontrivial = True
                if doc[2] is None:
                    res.count('http_hits_without_usable_timestamp')
                if prefix + info.file + suffix not in asked:
                    res.violation('content_differs', 'asked %r: %r handed back, but the site never saw a request '
                                  'for it' % (name, info.file), replay=cell, kind='http')
            res.cell('http:hit')
        else:
            res.count('notfound_checked')
            res.count('http_notfound_checked')
            present = sorted(k for k, v in docs.items() if k in promise and v[0] == 200)
            if present:
                res.violation('variant_not_found', 'asked %r (options %r): not found although the site serves %s (%r)' % (
                    name, o, present, cell), replay=cell, kind='http', fuzzy=bool(o['fuzzyMatching']),
                    lowcase=bool(o['lowcaseMatching']), anybase=bool(base_names(name, o)))
            if any(v[0] != 200 for k, v in docs.items() if k in promise):
                res.count('http_refused_variants_skipped')
            res.cell('http:notfound')
    res.sig = harness.stable_hash(['http', magic, suffix, sorted(o.items()), sorted(docs)])


def case_urls(idx, rng, res):
    from pysmi.reader import getReadersFromUrls, FileReader, ZipReader, HttpReader, FtpReader
    from pysmi import error
    base = tempfile.mkdtemp(prefix='verif-c14u-', dir=env.scratch_root())
    try:
        from urllib.request import pathname2url
        odd = rng.choice(['mibs', 'some dir', 'vendor mibs (v2)', u'caf\xe9', 'a%20b', 'plus+and&amp'])
        d = os.path.join(base, odd)
        os.makedirs(d)
        with open(os.path.join(d, 'A-MIB'), 'w') as f:
            f.write('from the directory\n')
        zdir = os.path.join(base, rng.choice(['z', 'zip dir', 'z (1)']))
        os.makedirs(zdir)
        zp = os.path.join(zdir, 'arch' + rng.choice(['.zip', '.ZIP']))
        with zipfile.ZipFile(zp, 'w') as z:
            z.writestr('A-MIB', 'from the archive\n')
        host = rng.choice(['mibs.example.org', '127.0.0.1', 'h'])
        port = rng.choice([None, 8080, 2121])
        hp = host + (':%d' % port if port else '')
        table = [
            (d, FileReader, {'serves': 'from the directory\n'}) if '%' not in odd else ('gopher://h/x', None, {}),
            ('file://' + pathname2url(d), FileReader, {'serves': 'from the directory\n'}),
            (zp, ZipReader, {'serves': 'from the archive\n'}),
            ('zip://' + pathname2url(zp), ZipReader, {'serves': 'from the archive\n'}),
            (pathname2url(zp), ZipReader, {'serves': 'from the archive\n'}),
            ('http://%s/a/@mib@' % hp, HttpReader, {'_url': 'http://%s:%d/a/@mib@' % (host, port or 80)}),
            ('https://%s/b/@mib@' % hp, HttpReader, {'_url': 'https://%s:%d/b/@mib@' % (host, port or 443)}),
            ('ftp://%s/c/@mib@' % hp, FtpReader, {'_host': host, '_locationTemplate': '/c/@mib@', '_ssl': False}),
            ('sftp://%s/c/@mib@' % hp, FtpReader, {'_host': host, '_ssl': True}),
            ('gopher://%s/x' % hp, None, {}),
            ('smb://%s/x' % hp, None, {}),
        ]
        rng.shuffle(table)
        for url, cls, attrs in table[:5]:
            res.count('urls_judged')
            try:
                rs = getReadersFromUrls(url)
            except error.PySmiError:
                if cls is not None:
                    res.violation('url_rejected', 'URL %r rejected, expected %s' % (url, cls.__name__), replay={'url': url})
                res.cell('url:rejected')
                continue
            except Exception as exc:
                res.violation('url_exception', 'URL %r raised %r' % (url, exc), replay={'url': url})
                continue
            if cls is None:
                res.violation('url_unknown_scheme_accepted', 'URL %r gave %r' % (url, rs), replay={'url': url})
                continue
            if len(rs) != 1 or type(rs[0]) is not cls:
                res.violation('url_reader_kind', 'URL %r mapped to %r, expected %s' % (
                    url, [type(r).__name__ for r in rs], cls.__name__), replay={'url': url})
                continue
            for k, v in attrs.items():
                if k == 'serves':
                    # judged by what the reader delivers, not by how it stores its location
                    try:
                        got_text = rs[0].getData('A-MIB')[1]
                    except Exception as exc:
                        got_text = repr(exc)
                    res.count('url_readers_probed')
                    if got_text != v:
                        res.violation('url_reader_location', 'URL %r: the reader built from it does not serve the file at '
                                      'that location: %r' % (url, got_text[:80]), replay={'url': url})
                elif hasattr(rs[0], k) and getattr(rs[0], k) != v:
                    res.violation('url_reader_params', 'URL %r: reader.%s=%r expected %r' % (
                        url, k, getattr(rs[0], k, None), v), replay={'url': url}, attr=k)
            res.cell('url:' + cls.__name__)
        # several URLs at once keep their order; options are applied to all
        rs = getReadersFromUrls(d, zp, fuzzyMatching=False)
        if [type(r).__name__ for r in rs] != ['FileReader', 'ZipReader'] or any(r.fuzzyMatching for r in rs):
            res.violation('url_list', 'two URLs gave %r' % rs)
        res.sig = harness.stable_hash([t[0].replace(base, '') for t in table[:5]])
        res.nontrivial = False
    finally:
        shutil.rmtree(base, ignore_errors=True)
