"""C03 - JSON output is well formed and holds exactly the declared symbols."""
import atexit
import os
import re
import shutil
import tempfile

from vlib import env, gen, harness, pipeline, compiled
from vlib.mib import pyname
from vlib.layout import Layout

ID = 'C03'
LEVEL = 'exploration'
RULE = ('mixed-kind modules (1-60 declarations of all eleven kinds, hyphenated and look-alike names, '
        'with and without texts, genTexts on/off, an eighth through a user template that only extends '
        'the stock one) compiled by the real compiler with the JSON backend; '
        'the document is parsed with a duplicate-rejecting json.loads and compared with the model: key '
        'set, class, node type, status, access, units, revisions of every symbol against its own '
        'declaration; non-trivial = >=5 declaration kinds in one module; distinct = multiset of kinds')
ASSUMPTIONS = ['SEQUENCE row types and MACRO / CHOICE blocks carry no record by design']

CLASS = {'value': 'objectidentity', 'objectidentity': 'objectidentity', 'moduleidentity': 'moduleidentity',
         'objecttype': 'objecttype', 'notificationtype': 'notificationtype', 'traptype': 'notificationtype',
         'objectgroup': 'objectgroup', 'notificationgroup': 'notificationgroup',
         'modulecompliance': 'modulecompliance', 'agentcapabilities': 'agentcapabilities',
         'type': 'type', 'tc': 'textualconvention'}


def plan(tier, seed):
    if tier == 'quick':
        return {'n': 2600, 'budget_s': 40, 'min_evals': 1500,
                'floors': {'modules_checked': 2500, 'symbols_checked': 40000, 'kinds_ge5': 800}}
    return {'n': 50000, 'budget_s': 600, 'min_evals': 30000,
            'floors': {'modules_checked': 60000, 'symbols_checked': 900000, 'kinds_ge5': 20000}}


def make_set(rng, tier):
    big = rng.random() < 0.15
    prof = gen.profile(modules=(1, 2), nodes=(1, 12 if big else 5), scalars=(0, 12 if big else 4),
                       tables=(0, 3 if big else 2), types=(0, 8 if big else 3), notifs=(0, 4 if big else 2),
                       groups=(0, 4 if big else 2), syntax='rich',
                       features=['traps', 'compliance', 'compliance_objects', 'capabilities',
                                 'capabilities_modules', 'types', 'smi_tc', 'defval', 'defval_zero', 'blocks'],
                       p_hyphen=rng.choice([0.0, 0.3, 0.6]))
    return gen.SetGen(rng, prof).build()


def ws(text):
    return re.sub(r'\s+', ' ', text)


def rev_time(t):
    if len(t) == 11:
        t = '19' + t
    return '%s-%s-%s %s:%s' % (t[0:4], t[4:6], t[6:8], t[8:10], t[10:12])


_TDIR = []


def user_template_dir():
    if not _TDIR:
        d = tempfile.mkdtemp(prefix='verif-c03t-', dir=env.scratch_root())
        with open(os.path.join(d, 'custom-json.j2'), 'w') as f:
            f.write('{% extends "jsondoc/base.j2" %}\n')
        atexit.register(shutil.rmtree, d, True)
        _TDIR.append(d)
    return _TDIR[0]


def run_case(idx, rng, tier, res):
    g = make_set(rng, tier)
    texts = g.texts((lambda: Layout(rng, 'noisy')) if rng.random() < 0.3 else None)
    gt = rng.random() < 0.5
    opts = {}
    cwd = None
    if rng.random() < 0.12:
        # a user template that merely extends the stock one (given, as mibdump gives it, by a path
        # relative to the working directory): the document must be the same valid one
        opts['dstTemplate'] = 'custom-json.j2'
        cwd = os.getcwd()
        os.chdir(user_template_dir())
        res.count('compiled_through_a_user_template')
    try:
        c = compiled.Compiled(g, texts, backends=('json',), genTexts=gt, **opts)
    finally:
        if cwd:
            os.chdir(cwd)
    replay = {'texts': texts, 'genTexts': gt, 'options': opts}
    if 'json' in c.raised:
        res.violation('compile_raised', 'compile() raised %r (options %r)' % (c.raised['json'], opts), replay=replay,
                      exc=type(c.raised['json']).__name__, template=bool(opts))
    for b, n, st, err in c.status_problems():
        res.violation('not_compiled', '%s: %s is %s (%s)' % (b, n, st, err), replay=replay)
    for n, exc in c.json_errors.items():
        res.violation('json_invalid', '%s: %r' % (n, exc), replay=replay, dup=type(exc).__name__ == 'DuplicateKey')
    for m in g.modules:
        doc = c.docs.get(m.name)
        if doc is None:
            continue
        res.count('modules_checked')
        decls = [d for d in m.decls if d.kind in CLASS]
        want_keys = set(pyname(d.name) for d in decls) | set(['imports', 'meta'])
        got_keys = set(doc)
        if want_keys != got_keys:
            res.violation('key_set', '%s: missing %s, unexpected %s' % (
                m.name, sorted(want_keys - got_keys)[:6], sorted(got_keys - want_keys)[:6]), replay=replay,
                missing=len(want_keys - got_keys), extra=len(got_keys - want_keys))
        if doc.get('meta', {}).get('module') != m.name:
            res.violation('meta_module', '%s: meta.module is %r' % (m.name, doc.get('meta', {}).get('module')), replay=replay)
        kinds = set()
        for d in decls:
            kinds.add(d.kind)
            e = doc.get(pyname(d.name))
            if not isinstance(e, dict):
                continue
            res.count('symbols_checked')
            res.cell('kind:' + d.kind)
            V = lambda what, got, want: res.violation(
                'field_' + what, '%s::%s (%s): %s is %r, declaration says %r' % (m.name, d.name, d.kind, what, got, want),
                replay=replay, kind=d.kind, field=what)
            if e.get('name') not in (pyname(d.name), d.name):
                V('name', e.get('name'), d.name)
            if e.get('class') != CLASS[d.kind]:
                V('class', e.get('class'), CLASS[d.kind])
            if d.kind == 'objecttype':
                if e.get('nodetype') != d.role:
                    V('nodetype', e.get('nodetype'), d.role)
                if e.get('maxaccess') != d.access:
                    V('maxaccess', e.get('maxaccess'), d.access)
                want_units = ws(d.units) if d.units is not None else None
                if e.get('units') != (want_units if want_units else None):
                    V('units', e.get('units'), want_units)
            elif 'nodetype' in e or 'maxaccess' in e:
                V('nodetype', e.get('nodetype'), None)
            if d.kind not in ('value', 'moduleidentity', 'traptype', 'type'):
                if e.get('status') != d.status:
                    V('status', e.get('status'), d.status)
            if d.kind == 'moduleidentity':
                want_revs = [{'revision': rev_time(t), 'description': ws(dd)} for t, dd in d.revisions]
                got_revs = e.get('revisions', [])
                if got_revs != want_revs:
                    V('revisions', got_revs, want_revs)
            if d.kind != 'objecttype' and 'units' in e:
                V('units', e.get('units'), None)
        if len(kinds) >= 5:
            res.count('kinds_ge5')
            res.nontrivial = True
    res.sig = harness.stable_hash(sorted((d.kind for m in g.modules for d in m.decls)))
    if idx % 800 == 0:
        m = g.modules[-1]
        res.sample = {'module': m.name, 'declared': [(d.kind, d.name) for d in m.decls][:30],
                      'json_keys': sorted(c.docs.get(m.name, {}))[:40]}
