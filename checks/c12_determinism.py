"""C12 - results depend only on the input: no state leaks, no hash-seed dependence."""
import json
import os
import re
import subprocess

from vlib import gen, harness, pipeline, env, orch
from vlib.layout import Layout
from checks import c02_ast

ID = 'C12'
CONTRACTS = True     # icontract recording contracts ride along (vlib/contracts.py)
LEVEL = 'exploration'
RULE = ('histories of 2-10 inputs fed to ONE parser / SymtableCodeGen / JsonCodeGen / PySnmpCodeGen / '
        'MibCompiler instance, each element also processed by fresh instances; inputs mix valid modules '
        '(with/without MODULE-IDENTITY and REVISIONs, tables, many imports) with texts failing in each '
        'lexer state (plain, MACRO, EXPORTS, CHOICE, comment, inside a string), syntax errors on '
        'different lines, semantic and code-generation errors, empty texts; outcome = tree, generated '
        'text, MibInfo / MibStatus fields, or (error class, line); also: the same operation repeated, '
        'generation twice from the same AST object; parent phase: identical corpus compiled in '
        'subprocesses under PYTHONHASHSEED 0,1,2,3,7,42,random and compared byte for byte; '
        'non-trivial = history with a failing element followed by a valid one or a revision-bearing '
        'module followed by a revision-less one; distinct = hash(history)')
ASSUMPTIONS = ['only (class, lineno) of errors decide, message wording is diagnostic',
               'instances are compared within one process; the time stamp comment is not passed to '
               'the generators by this harness']

SEEDS = ['0', '1', '2', '3', '7', '42', 'random']


def plan(tier, seed):
    if tier == 'quick':
        return {'n': 1400, 'budget_s': 40, 'min_evals': 3000,
                'floors': {'elements_compared': 6000, 'fail_then_valid': 800, 'rev_then_norev': 100,
                           'repeat_checks': 800, 'hashseed_items_compared': 1500, 'compile_histories': 100}}
    return {'n': 40000, 'budget_s': 600, 'min_evals': 80000,
            'floors': {'elements_compared': 200000, 'fail_then_valid': 25000, 'rev_then_norev': 3000,
                       'repeat_checks': 25000, 'hashseed_items_compared': 15000, 'compile_histories': 3000}}


def make_set(rng, tier):
    prof = gen.profile(modules=(1, 3), nodes=(1, 5), scalars=(0, 4), tables=(0, 2), types=(0, 3),
                       notifs=(0, 2), groups=(0, 2), syntax='rich',
                       features=['traps', 'compliance', 'capabilities', 'types', 'smi_tc', 'defval',
                                 'defval_zero', 'blocks'],
                       p_identity=rng.choice([0.2, 0.7, 1.0]), p_hyphen=rng.choice([0.0, 0.3]),
                       # texts with line breaks, so that a text filter has something to keep or squeeze
                       text_fn=(c02_ast.multiline_text if rng.random() < 0.6 else None))
    return gen.SetGen(rng, prof).build()


BROKEN = ['illegal', 'macro_open', 'exports_open', 'choice_open', 'string_open', 'comment_tail',
          'syntax_early', 'syntax_late', 'truncated', 'empty', 'forbidden', 'bignum']


def break_text(rng, text, how):
    lines = text.split('\n')
    if how == 'illegal':
        k = rng.randrange(len(lines))
        lines.insert(k, ' ! ')
        return '\n'.join(lines)
    if how == 'macro_open':
        return text[:text.find('BEGIN') + 5] + '\n OBJECT-TYPE MACRO ::= BEGIN junk without the closing keyword\n more junk'
    if how == 'exports_open':
        return text[:text.find('BEGIN') + 5] + '\n EXPORTS a, b, c -- never terminated\n d, e'
    if how == 'choice_open':
        return text[:text.find('BEGIN') + 5] + '\n Foo ::= CHOICE { a INTEGER,\n b OCTET STRING '
    if how == 'string_open':
        i = text.find('"')
        return text[:i + 3] if i != -1 else text + ' "unterminated'
    if how == 'comment_tail':
        return text[:len(text) // 2] + ' -- cut inside a comment'
    if how == 'syntax_early':
        return text.replace('DEFINITIONS', 'DEFINITIONS DEFINITIONS', 1)
    if how == 'syntax_late':
        i = text.rfind('END')
        return text[:i] + ' ::= ::= ' + text[i:]
    if how == 'truncated':
        return text[:rng.randrange(len(text) // 3, len(text) - 4)]
    if how == 'empty':
        return rng.choice(['', '\n\n', '-- just a comment\n'])
    if how == 'forbidden':
        i = text.rfind('END')
        return text[:i] + '\n\n BOOLEAN \n' + text[i:]
    if how == 'bignum':
        i = text.rfind('END')
        return text[:i] + '\n 99999999999999999999999999 \n' + text[i:]
    return text


def parse_outcome(parser, text):
    from pysmi import error
    try:
        return ('tree', parser.parse(text))
    except (error.PySmiLexerError, error.PySmiParserError) as exc:
        return ('err', type(exc).__name__, exc.lineno)
    except Exception as exc:
        return ('foreign', type(exc).__name__, str(exc)[:80])


def info_tuple(mi):
    return (mi.name, getattr(mi, 'identity', None), getattr(mi, 'revision', None),
            sorted(getattr(mi, 'oids', ()) or ()), getattr(mi, 'enterprise', None),
            list(getattr(mi, 'compliance', ()) or ()), tuple(getattr(mi, 'imported', ()) or ()))


def gen_outcome(symgen, cg, ast, symtab_seed, **kw):
    """symbol table + code generation of one module tree against a copy of a base symbol table"""
    from pysmi import error
    import copy
    ast = copy.deepcopy(ast)
    tab = dict(symtab_seed)
    try:
        mi, st = symgen.genCode(ast, tab, **kw)
        tab[mi.name] = st
        sym = ('symtab', mi.name, mi.revision, tuple(mi.imported), sorted(k for k in st))
    except error.PySmiError as exc:
        return ('symerr', type(exc).__name__, re.sub(r'0x[0-9a-f]+', '', exc.msg)[:120])
    except Exception as exc:
        return ('foreign', type(exc).__name__, str(exc)[:120])
    try:
        mi2, text = cg.genCode(ast, tab, **kw)
        KEPT.append((mi2, info_tuple(mi2)))
        return (sym, 'text', text, info_tuple(mi2))
    except error.PySmiError as exc:
        return (sym, 'generr', type(exc).__name__, re.sub(r'0x[0-9a-f]+', '', exc.msg)[:120])
    except Exception as exc:
        return (sym, 'foreign', type(exc).__name__, str(exc)[:120])


_BASE_TAB = {}
KEPT = []       # (MibInfo object, its fields when it was returned) - results must not change afterwards


def base_symtab():
    """symbol tables of the fixtures, built once per process with a throw-away generator"""
    if not _BASE_TAB:
        from pysmi.codegen.symtable import SymtableCodeGen
        p = pipeline.make_parser('smiV1Relaxed')
        sg = SymtableCodeGen()
        for name in ('SNMPv2-SMI', 'SNMPv2-TC', 'SNMPv2-CONF', 'RFC-1215', 'RFC1155-SMI', 'RFC-1212'):
            for ast in p.parse(pipeline.fixtures()[name]):
                mi, st = sg.genCode(ast, _BASE_TAB)
                _BASE_TAB[mi.name] = st
    return _BASE_TAB


def semantic_break(rng, text):
    """valid syntax, broken meaning"""
    i = text.rfind('END')
    how = rng.choice(['unknown_parent', 'duplicate', 'unknown_type'])
    if how == 'unknown_parent':
        return text[:i] + '\n lostNode OBJECT IDENTIFIER ::= { nowhereToBeFound 1 }\n' + text[i:]
    if how == 'duplicate':
        return text[:i] + '\n dupNode OBJECT IDENTIFIER ::= { 1 3 9 }\n dupNode OBJECT IDENTIFIER ::= { 1 3 9 }\n' + text[i:]
    return text[:i] + ('\n weird OBJECT-TYPE SYNTAX NoSuchType MAX-ACCESS read-only STATUS current '
                       'DESCRIPTION "x" ::= { 1 3 9 9 }\n') + text[i:]


def case_parser(idx, rng, tier, res):
    g = make_set(rng, tier)
    texts = list(g.texts(lambda: Layout(rng, 'noisy')).values())
    hist = []
    for _ in range(rng.randint(2, 10)):
        t = rng.choice(texts)
        r = rng.random()
        if r < 0.45:
            how = rng.choice(BROKEN)
            hist.append((how, break_text(rng, t, how)))
        else:
            hist.append(('valid', t))
    dialect = rng.choice(c02_ast.DIALECTS)
    shared = pipeline.make_parser(dialect)
    prev = None
    for k, (how, text) in enumerate(hist):
        a = parse_outcome(shared, text)
        b = parse_outcome(pipeline.make_parser(dialect), text)
        res.count('elements_compared')
        res.cell('parser:%s->%s' % (prev, how if how == 'valid' else 'broken'))
        if prev not in (None, 'valid') and how == 'valid':
            res.count('fail_then_valid')
        if a != b:
            res.violation('parser_history_dependence', 'element %d (%s) after %s: long-lived parser gave %s, '
                          'fresh parser %s' % (k, how, [h for h, _t in hist[:k]], short(a), short(b)),
                          replay={'history': [t for _h, t in hist[:k + 1]], 'dialect': dialect},
                          component='parser', prev=str(prev))
        if a[0] == 'foreign':
            res.violation('foreign_exception', 'parser raised %s' % (a,), replay={'text': text})
        if rng.random() < 0.3:
            a2 = parse_outcome(shared, text)
            res.count('repeat_checks')
            if a2 != a:
                res.violation('parser_repetition', 'parsing the same text twice gave %s then %s' % (short(a), short(a2)),
                              replay={'text': text, 'dialect': dialect}, component='parser')
        prev = how
    res.sig = harness.stable_hash(['p', [h for h, _ in hist], [len(t) for _, t in hist]])
    res.nontrivial = any(hist[i][0] != 'valid' and hist[i + 1][0] == 'valid' for i in range(len(hist) - 1))
    res.evals = len(hist)
    if idx % 700 == 0:
        res.sample = {'component': 'parser', 'dialect': dialect, 'history': [h for h, _ in hist]}


STAMP = re.compile(r'Produced by [^\n"]* at [^\n"]*')


def mask(text):
    return STAMP.sub('Produced by <masked>', text) if isinstance(text, str) else text


def short(o):
    s = repr(o)
    return s if len(s) < 160 else s[:160] + '...'


def KEEP_LAYOUT(symbol, text):
    return text


def case_codegen(idx, rng, tier, res):
    from pysmi.codegen.symtable import SymtableCodeGen
    backend = rng.choice(['json', 'pysnmp'])
    p = pipeline.make_parser('smiV1Relaxed')
    units = []
    for _ in range(rng.randint(1, 3)):
        g = make_set(rng, tier)
        texts = g.texts()
        seed_tab = dict(base_symtab())
        # dependencies of later modules: register earlier ones in the seed table via a throw-away generator
        tmp = SymtableCodeGen()
        for m in g.modules:
            t = texts[m.name]
            how = 'valid'
            if rng.random() < 0.3:
                t = semantic_break(rng, t)
                how = 'semantic'
            try:
                ast = p.parse(t)[0]
            except Exception:
                continue
            units.append((how, ast, dict(seed_tab), m))
            deps = [x for x, _s in m.imports if x in seed_tab and x not in base_symtab()]
            if how == 'valid' and deps and rng.random() < 0.3:
                # the same module against a symbol table that lacks one of its dependencies: whatever a
                # generator saw in earlier calls, this call has only what it is given
                short_tab = dict(seed_tab)
                short_tab.pop(rng.choice(deps))
                units.append(('nodep', ast, short_tab, m))
                res.count('units_with_a_dependency_withheld')
            if how == 'valid':
                try:
                    mi, st = tmp.genCode(__import__('copy').deepcopy(ast), seed_tab)
                    seed_tab[mi.name] = st
                except Exception:
                    pass
    rng.shuffle(units)
    units = units[:rng.randint(2, 8)]
    if len(units) < 2:
        return
    shared_sym, shared_cg = SymtableCodeGen(), pipeline.make_codegen(backend)
    del KEPT[:]
    prev_rev = None
    prev = None
    for k, (how, ast, tab, m) in enumerate(units):
        kw = {'genTexts': rng.random() < 0.5}
        if rng.random() < 0.3:
            kw['textFilter'] = KEEP_LAYOUT      # what mibdump --keep-texts-layout passes; per call, not sticky
            res.count('calls_with_a_text_filter')
        a = gen_outcome(shared_sym, shared_cg, ast, tab, **kw)
        b = gen_outcome(SymtableCodeGen(), pipeline.make_codegen(backend), ast, tab, **kw)
        res.count('elements_compared')
        has_rev = any(d.kind == 'moduleidentity' and d.revisions for d in m.decls)
        if prev_rev and not has_rev:
            res.count('rev_then_norev')
            res.nontrivial = True
        if prev == 'semantic' and how == 'valid':
            res.count('fail_then_valid')
            res.nontrivial = True
        res.cell('codegen:%s:%s->%s' % (backend, prev, how))
        if a != b:
            res.violation('codegen_history_dependence', '%s backend, element %d (%s, module %s) after %s: '
                          'long-lived generators gave %s, fresh ones %s' % (
                              backend, k, how, m.name, [u[0] for u in units[:k]], first_difference(a, b), ''),
                          replay={'backend': backend, 'element': k}, component=backend, prev=str(prev),
                          rev_then_norev=bool(prev_rev and not has_rev))
        if 'foreign' in a:
            res.violation('foreign_exception', '%s generators raised %s' % (backend, short(a)), replay=None)
        if rng.random() < 0.4:
            a2 = gen_outcome(shared_sym, shared_cg, ast, tab, **kw)
            res.count('repeat_checks')
            if a2 != a:
                res.violation('codegen_repetition', '%s: same module generated twice differs: %s' % (
                    backend, first_difference(a, a2)), replay={'backend': backend}, component=backend)
        if rng.random() < 0.3 and how == 'valid':
            # twice from the very same AST object (no copy in between)
            import copy
            ast2 = copy.deepcopy(ast)
            sg, cg = SymtableCodeGen(), pipeline.make_codegen(backend)
            outs = []
            for _rep in range(2):
                t2 = dict(tab)
                try:
                    mi, st = sg.genCode(ast2, t2, **kw)
                    t2[mi.name] = st
                    mi2, text = cg.genCode(ast2, t2, **kw)
                    outs.append((text, info_tuple(mi2)))
                except Exception as exc:
                    outs.append(('exc', type(exc).__name__, str(exc)[:100]))
            res.count('repeat_checks')
            if outs[0] != outs[1]:
                res.violation('same_ast_twice', '%s: generating twice from the same tree object differs: %s' % (
                    backend, first_difference(outs[0], outs[1])), replay={'backend': backend}, component=backend)
        prev_rev = has_rev if how == 'valid' else prev_rev
        prev = how
    # summaries handed out earlier must still say what they said then
    for mi, snap in KEPT:
        res.count('kept_results_rechecked')
        now = info_tuple(mi)
        if now != snap:
            res.violation('earlier_result_changed', '%s: the summary returned for %s changed after later work on the '
                          'same generator: %s' % (backend, snap[0], first_difference(snap, now)),
                          replay={'backend': backend}, component=backend)
            break
    res.sig = harness.stable_hash(['c', backend, [(u[0], u[3].name, len(u[3].decls)) for u in units]])
    res.evals = len(units)
    if idx % 700 == 1:
        res.sample = {'component': backend + ' generators', 'history': [(u[0], u[3].name) for u in units]}


def first_difference(a, b):
    if type(a) == type(b) and isinstance(a, tuple) and len(a) == len(b):
        for i, (x, y) in enumerate(zip(a, b)):
            if x != y:
                if isinstance(x, str) and isinstance(y, str):
                    for j, (lx, ly) in enumerate(zip(x.split('\n'), y.split('\n'))):
                        if lx != ly:
                            return 'field %d line %d: %r vs %r' % (i, j + 1, lx[:120], ly[:120])
                    return 'field %d: lengths %d vs %d' % (i, len(x), len(y))
                return 'field %d: %s' % (i, first_difference(x, y))
    return '%s vs %s' % (short(a), short(b))


_PRINTER = []


def debug_printer(sink):
    """the package's own Printer on a private logging.Logger whose only handler appends to `sink`"""
    import logging
    from pysmi import debug
    if not _PRINTER:
        class ListHandler(logging.Handler):
            sink = None

            def emit(self, record):
                if self.sink is not None:
                    self.sink.append(record.getMessage())
        h = ListHandler()
        lg = logging.getLogger('verif-c12-debug')
        lg.propagate = False
        _PRINTER.extend([debug.Printer(logger=lg, handler=h), h])
    _PRINTER[1].sink = sink
    return _PRINTER[0]


def case_compiler(idx, rng, tier, res):
    """several compile() calls on one MibCompiler vs one call each on fresh compilers"""
    backend = rng.choice(['json', 'pysnmp'])
    calls = []
    for _ in range(rng.randint(2, 4)):
        g = make_set(rng, tier)
        texts = g.texts()
        names = [m.name for m in g.modules]
        if rng.random() < 0.35:
            victim = rng.choice(names)
            texts[victim] = break_text(rng, texts[victim], rng.choice(BROKEN)) if rng.random() < 0.6 \
                else semantic_break(rng, texts[victim])
        opts = {'genTexts': rng.random() < 0.5, 'ignoreErrors': rng.random() < 0.5}
        if rng.random() < 0.3:
            opts['textFilter'] = KEEP_LAYOUT
            res.count('calls_with_a_text_filter')
        calls.append((texts, names, opts))

    def summarize(results, written):
        out = {}
        for k, v in results.items():
            e = getattr(v, 'error', None)
            out[k] = (str(v), getattr(v, 'identity', None), getattr(v, 'revision', None),
                      sorted(getattr(v, 'oids', ()) or ()), getattr(v, 'enterprise', None),
                      list(getattr(v, 'compliance', ()) or ()),
                      (type(e).__name__, getattr(e, 'lineno', None)) if e is not None else None,
                      mask(written.get(k, [None])[-1]))
        return out

    from pysmi.compiler import MibCompiler
    from pysmi.reader.callback import CallbackReader
    from pysmi.writer.callback import CallbackWriter
    from pysmi.searcher.stub import StubSearcher
    cur = {}
    written = {}
    shared = MibCompiler(pipeline.make_parser('smiV1Relaxed'), pipeline.make_codegen(backend),
                         CallbackWriter(lambda n, d, c: written.setdefault(n, []).append(d)))
    shared.addSources(CallbackReader(lambda n, c: cur.get(n)))
    shared.addSearchers(StubSearcher(*(pipeline.BASE_STUBS + pipeline.HOME_STUBS)))
    earlier = []
    # one call of a pysnmp history may use a custom destination template (with its own pysnmp/base.j2):
    # nothing of it may show in later calls, neither on this compiler nor on fresh ones
    tdir = None
    if backend == 'pysnmp' and len(calls) >= 3 and rng.random() < 0.5:
        import tempfile
        tdir = tempfile.mkdtemp(prefix='verif-c12t-', dir=env.scratch_root())
        os.makedirs(os.path.join(tdir, 'pysnmp'))
        with open(os.path.join(tdir, 'custom.j2'), 'w') as f:
            f.write('{% extends "pysnmp/mib-definitions.j2" %}\n')
        with open(os.path.join(tdir, 'pysnmp', 'base.j2'), 'w') as f:
            f.write('# CUSTOM HEADER of a user template\n')
        tcall = rng.randrange(0, len(calls) - 1)
        res.count('custom_template_calls')
    for k, (texts, names, opts) in enumerate(calls):
        if tdir and k == tcall:
            cwd = os.getcwd()
            os.chdir(tdir)
            try:
                cur.clear()
                cur.update(pipeline.fixtures())
                cur.update(texts)
                written.clear()
                try:
                    shared.compile(*names, **dict(opts, dstTemplate='custom.j2'))
                except Exception:
                    pass
            finally:
                os.chdir(cwd)
            continue
        cur.clear()
        cur.update(pipeline.fixtures())
        cur.update(texts)
        written.clear()
        # a quarter of the calls run with the package's debug logging switched on (every category):
        # what is logged is the caller's business, what is returned must not change
        dbg = rng.random() < 0.25
        msgs = []
        if dbg:
            from pysmi import debug
            debug.setLogger(debug.Debug('all', printer=debug_printer(msgs)))
        try:
            raw = shared.compile(*names, **opts)
            a = summarize(raw, written)
            earlier.append((raw, dict(written), a))
        except Exception as exc:
            a = ('raised', type(exc).__name__, str(exc)[:100])
        finally:
            if dbg:
                debug.setLogger(0)
                res.count('calls_with_debug_logging')
                res.count('debug_messages_seen', len(msgs))
        try:
            r, w = pipeline.compile_set(texts, names, codegen=backend, **opts)
            b = summarize(r, w)
        except Exception as exc:
            b = ('raised', type(exc).__name__, str(exc)[:100])
        res.count('elements_compared')
        if tdir and k > tcall:
            # neither the long-lived nor a brand-new compiler may still see the user's template directory
            for which, summ in (('the same compiler', a), ('a fresh compiler', b)):
                if isinstance(summ, dict) and any('CUSTOM HEADER of a user template' in (v[-1] or '')
                                                  for v in summ.values()):
                    res.violation('template_option_leaks', 'a compile() call without dstTemplate on %s still renders the '
                                  'custom template of an earlier call' % which, replay={'backend': backend},
                                  component='compiler')
        if a != b:
            diff = [kk for kk in set(a) | set(b) if isinstance(a, dict) and isinstance(b, dict) and a.get(kk) != b.get(kk)]
            detail = ''
            if diff:
                kk = diff[0]
                detail = '%s: %s' % (kk, first_difference(a.get(kk), b.get(kk)))
            res.violation('compiler_history_dependence', 'compile() call %d on a long-lived MibCompiler (%s)%s '
                          'differs from a fresh one for %s' % (k, backend, ' with debug logging on' if dbg else '',
                                                               detail or short(a)),
                          replay={'call': k, 'backend': backend, 'debug': dbg}, component='compiler')
    for raw, w, snap in earlier:
        res.count('kept_results_rechecked')
        if summarize(raw, w) != snap:
            res.violation('earlier_result_changed', 'statuses returned by an earlier compile() call changed after a '
                          'later call on the same MibCompiler (%s)' % backend, replay={'backend': backend},
                          component='compiler')
            break
    if tdir:
        import shutil
        shutil.rmtree(tdir, ignore_errors=True)
    res.count('compile_histories')
    res.sig = harness.stable_hash(['m', backend, [sorted(c[1]) for c in calls]])
    res.nontrivial = True
    res.evals = len(calls)


def run_case(idx, rng, tier, res):
    k = idx % 7
    if k < 3:
        case_parser(idx, rng, tier, res)
    elif k < 6:
        case_codegen(idx, rng, tier, res)
    else:
        case_compiler(idx, rng, tier, res)


def cli_hashseed(res, seeds):
    """mibdump given MIBs by path in several directories: which copy of a shared dependency is compiled
    must not depend on the hash seed"""
    import shutil
    import tempfile
    base = tempfile.mkdtemp(prefix='verif-c12cli-', dir=env.scratch_root())
    try:
        fix = os.path.join(base, 'fix')
        os.makedirs(fix)
        for b in orch.BASE:
            with open(os.path.join(fix, b), 'w') as f:
                f.write(pipeline.fixtures()[b])
        paths = []
        for k, d in enumerate(['alpha', 'beta', 'gamma', 'delta']):
            dd = os.path.join(base, d)
            os.makedirs(dd)
            top = '%s-MIB' % ('ABCD'[k] * 2)
            with open(os.path.join(dd, top + '.txt'), 'w') as f:
                f.write(orch.module_text(orch.MODNAMES[k], ['HH-MIB'], 'disk').replace(orch.MODNAMES[k], top))
            with open(os.path.join(dd, 'HH-MIB'), 'w') as f:
                f.write(orch.module_text('HH-MIB', [], 'copy%d' % k, tag_arc=k + 1))
            paths.append(os.path.join(dd, top + '.txt'))
        outs = {}
        for hs in seeds:
            dst = os.path.join(base, 'dst_%s' % hs)
            e = env.child_env(hs)
            e['PYTHONPATH'] = env.REPO
            e['HOME'] = base
            p = subprocess.run([env.PYTHON, os.path.join(env.REPO, 'scripts', 'mibdump.py'), '--mib-source=' + fix,
                                '--destination-directory=' + dst, '--destination-format=json',
                                '--mib-borrower=' + base] + paths, env=e, stdout=subprocess.PIPE,
                               stderr=subprocess.PIPE, timeout=300, cwd=base)
            try:
                with open(os.path.join(dst, 'HH-MIB.json')) as f:
                    outs[hs] = mask(f.read())
            except IOError:
                outs[hs] = 'no output (exit %s): %s' % (p.returncode, p.stderr.decode('utf-8', 'replace')[-200:])
        res.count('cli_hashseed_runs', len(outs))
        ref = outs[seeds[0]]
        for hs, o in outs.items():
            if o != ref:
                res.violation('cli_hashseed_dependence', 'mibdump over MIBs given by path in four directories compiled a '
                              'different copy of the shared dependency under PYTHONHASHSEED=%s than under %s' % (hs, seeds[0]),
                              replay={'seeds': [seeds[0], hs]}, what='cli')
                break
    finally:
        shutil.rmtree(base, ignore_errors=True)


def extra(tier, seed, emit):
    """hash-seed sweep in subprocesses"""
    res = harness.Result(-1)
    nsets = 40 if tier == 'quick' else 150
    seeds = SEEDS[:4] + ['random'] if tier == 'quick' else SEEDS
    child = os.path.join(env.VERIF, 'vlib', 'c12_child.py')
    procs = []
    for hs in seeds:
        e = env.child_env(hs)
        procs.append((hs, subprocess.Popen([env.PYTHON, child, str(seed), str(nsets)], env=e,
                                           stdout=subprocess.PIPE, stderr=subprocess.PIPE)))
    outs = {}
    for hs, p in procs:
        try:
            o, err = p.communicate(timeout=900)
        except subprocess.TimeoutExpired:
            p.kill()
            res.violation('hashseed_child_timeout', 'seed %s' % hs)
            continue
        if p.returncode != 0:
            res.violation('hashseed_child_failed', 'seed %s: %s' % (hs, err.decode('utf-8', 'replace')[-500:]))
            continue
        outs[hs] = json.loads(o.decode().strip().splitlines()[-1])
    ref_seed = seeds[0]
    ref = outs.get(ref_seed, {})
    n = 0
    reported = set()
    for hs, o in outs.items():
        if hs == ref_seed:
            continue
        for k in sorted(set(ref) | set(o)):
            if k.endswith(':TEXT'):
                continue
            n += 1
            if ref.get(k) != o.get(k):
                what = k.split(':')[-1] + ':' + (k.split(':')[2] if k.count(':') >= 3 else '')
                if what in reported:
                    continue
                reported.add(what)
                res.violation('hashseed_dependence', 'item %s differs between PYTHONHASHSEED=%s (%s) and %s (%s)' % (
                    k, ref_seed, ref.get(k), hs, o.get(k)), replay={'item': k, 'seeds': [ref_seed, hs]},
                    what=what.split(':')[0], backend=what.split(':')[1])
    res.count('hashseed_items_compared', n)
    res.count('hashseed_processes', len(outs))
    cli_hashseed(res, seeds)
    res.evals = len(outs)
    res.sig = 'hashseed'
    res.nontrivial = True
    res.sample = {'phase': 'hash-seed sweep', 'seeds': seeds, 'sets': nsets, 'items_per_seed': len(ref)}
    emit(res)
