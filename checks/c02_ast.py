"""C02 - the syntax tree is a faithful, layout-independent image of the MIB text."""
from vlib import gen, harness, pipeline, mib
from vlib.layout import Layout

ID = 'C02'
CONTRACTS = True     # icontract recording contracts ride along (vlib/contracts.py)
LEVEL = 'exploration'
RULE = ('grammar-directed generator choosing every optional clause independently (UNITS, REFERENCE, '
        'DEFVAL of each notation, INDEX/AUGMENTS/IMPLIED, revisions, compliance modules with GROUP / '
        'OBJECT refinements, capabilities with SUPPORTS/VARIATION, type tags, SEQUENCE types, MACRO / '
        'CHOICE / EXPORTS blocks, module OID, split IMPORTS, several modules per file); each model is '
        'rendered with 3-4 random layouts (spaces, tabs, blank lines, LF/CRLF/CR, comments incl. at '
        'EOF, glued punctuation) and parsed by the real parser under all three shipped dialects; '
        'oracle (a) the tree built from the model, (b) equality of the trees of different layouts; '
        'non-trivial = >=3 clause kinds and >=1 comment between tokens; distinct = hash of the '
        'declaration-kind / optional-part signature')
ASSUMPTIONS = ['the expected tree encodes what the grammar actions document (skipped parts - '
               'SubjectCategories, compliance OBJECT refinements, capabilities modules - are absent)',
               'layout never inserts a character that is a token of this lexer']

DIALECTS = ['smiV2', 'smiV1', 'smiV1Relaxed']
_PARSERS = {}


def parser(dialect):
    if dialect not in _PARSERS:
        _PARSERS[dialect] = pipeline.make_parser(dialect)
    return _PARSERS[dialect]


def plan(tier, seed):
    if tier == 'quick':
        return {'n': 3200, 'budget_s': 45, 'min_evals': 4000,
                'floors': {'parses': 8000, 'trees_compared': 3000, 'layout_pairs': 3000,
                           'decls_compared': 40000}}
    return {'n': 60000, 'budget_s': 600, 'min_evals': 80000,
            'floors': {'parses': 200000, 'trees_compared': 60000, 'layout_pairs': 60000,
                       'decls_compared': 800000}}


FEATURES = ['traps', 'compliance', 'compliance_objects', 'capabilities', 'capabilities_modules', 'blocks',
            'types', 'smi_tc', 'defval', 'defval_bits', 'defval_oid', 'defval_empty_string',
            'defval_bin_octets', 'defval_empty_hex', 'tags', 'split_imports', 'module_oid', 'keywordish']


def multiline_text(rng):
    t = gen.simple_text(rng)
    r = rng.random()
    if r < 0.35:
        words = t.split(' ')
        k = rng.randint(1, max(1, len(words) - 1))
        nl = rng.choice(['\n', '\r\n', '\n   ', '\n\n', '\r'])
        t = ' '.join(words[:k]) + nl + ' '.join(words[k:])
        if rng.random() < 0.3:
            t += nl + 'last line'
    if rng.random() < 0.12:
        # characters some libraries take for line ends, the MIB lexer does not: form feed (page breaks of
        # RFC texts), vertical tab, file/group/record separators, NEL, LINE / PARAGRAPH SEPARATOR
        words = t.split(' ')
        k = rng.randint(0, len(words) - 1)
        words[k] += rng.choice(['\f', '\v', '\x1c', '\x1d', '\x1e', u'\x85', u'\u2028', u'\u2029'])
        t = ' '.join(words)
    return t


def make_set(rng, tier, feats=None):
    feats = list(feats if feats is not None else FEATURES)
    prof = gen.profile(text_fn=multiline_text, modules=(1, 3), nodes=(1, 5), scalars=(0, 5), tables=(0, 2), types=(0, 4),
                       notifs=(0, 2), groups=(0, 2), features=feats, syntax='rich',
                       p_hyphen=rng.choice([0.0, 0.3]), p_label_arc=0.3, p_numeric_root=0.3,
                       max_list=rng.choice([3, 8, 20 if tier == 'thorough' else 8]))
    return gen.SetGen(rng, prof).build()


def first_diff(a, b, path=''):
    if type(a) != type(b):
        return '%s: %r vs %r' % (path, a, b)
    if isinstance(a, (list, tuple)):
        if len(a) != len(b):
            return '%s: length %d vs %d (%r vs %r)' % (path, len(a), len(b), a, b) if len(repr(a)) < 300 else \
                '%s: length %d vs %d' % (path, len(a), len(b))
        for i, (x, y) in enumerate(zip(a, b)):
            d = first_diff(x, y, '%s[%d]' % (path, i))
            if d:
                return d
        return None
    if isinstance(a, dict):
        if sorted(a) != sorted(b):
            return '%s: keys %r vs %r' % (path, sorted(a), sorted(b))
        for k in a:
            d = first_diff(a[k], b[k], '%s[%r]' % (path, k))
            if d:
                return d
        return None
    return None if a == b else '%s: %r vs %r' % (path, a, b)


def decl_features(d):
    out = set()
    if d.kind == 'objecttype':
        if d.defval is not None:
            out.add('defval_' + d.defval.kind)
            if d.defval.kind == 'number' and d.defval.value == 0:
                out.add('defval_zero')
        if d.index is not None:
            out.add('index')
        if d.augments is not None:
            out.add('augments')
    if d.kind == 'modulecompliance':
        for cm in d.modules:
            if cm['items'] and cm['items'][0][0] == 'OBJECT':
                out.add('compliance_leading_object')
            if any(i[0] == 'OBJECT' for i in cm['items']):
                out.add('compliance_object')
    return out


def run_case(idx, rng, tier, res):
    g = make_set(rng, tier)
    nlay = 3 if tier == 'quick' else 4
    kinds = set()
    for m in g.modules:
        for d in m.decls:
            kinds.add(d.kind)
    # several modules per file in one case out of four
    units = [[m] for m in g.modules]
    if len(g.modules) > 1 and idx % 4 == 0:
        units = [list(g.modules)]
        res.count('multi_module_files')
    comments = 0
    for unit in units:
        expected = [m.ast() for m in unit]
        toks = []
        for m in unit:
            toks += m.tokens()
        trees = []
        for li in range(nlay):
            lay = Layout(rng, 'noisy' if li else 'plain',
                         eol=rng.choice([None, None, '\n', '\r\n', '\r']) if li else None)
            text = lay.join(toks)
            comments += lay.stats.get('comment', 0)
            for k, v in lay.stats.items():
                res.count('layout_' + k, v)
            dialect = DIALECTS[(idx + li) % 3]
            try:
                tree = parser(dialect).parse(text)
            except Exception as exc:
                res.count('parses')
                feats = set()
                for m in unit:
                    for d in m.decls:
                        feats |= decl_features(d)
                res.violation('wellformed_rejected', '%s dialect rejected a well-formed text: %s: %s' % (
                    dialect, type(exc).__name__, exc), replay={'text': text, 'dialect': dialect},
                    dialect=dialect, exc=type(exc).__name__)
                trees.append(None)
                continue
            res.count('parses')
            trees.append(tree)
            # (a) reference tree
            res.count('trees_compared')
            if len(tree) != len(expected):
                res.violation('module_count', 'parsed %d modules, text holds %d' % (len(tree), len(expected)),
                              replay={'text': text, 'dialect': dialect})
                continue
            for mt, me, m in zip(tree, expected, unit):
                if mt[:3] != me[:3]:
                    res.violation('module_header', 'module %s header/imports differ: %s' % (
                        m.name, first_diff(mt[:3], me[:3])), replay={'text': text, 'dialect': dialect})
                dt, de = mt[3] or [], me[3] or []
                if len(dt) != len(de):
                    res.violation('declaration_count', 'module %s: %d declarations parsed, %d written' % (
                        m.name, len(dt), len(de)), replay={'text': text, 'dialect': dialect})
                    continue
                for got, want, d in zip(dt, de, m.decls):
                    res.count('decls_compared')
                    if got != want:
                        feats = decl_features(d)
                        res.violation('declaration_tree', 'module %s declaration %s (%s) differs at %s' % (
                            m.name, d.name, d.kind, first_diff(got, want)),
                            replay={'text': text, 'dialect': dialect, 'declaration': d.name},
                            kind=d.kind, dialect=dialect,
                            defval_zero='defval_zero' in feats,
                            leading_object='compliance_leading_object' in feats)
        # (b) layout invariance
        good = [t for t in trees if t is not None]
        for t in good[1:]:
            res.count('layout_pairs')
            if t != good[0]:
                res.violation('layout_dependence', 'two layouts of the same tokens parse differently: %s' % (
                    first_diff(t, good[0])), replay={'tokens': [str(x) for x in toks][:400]})
    for k in kinds:
        res.cell('kind:' + k)
    for k, v in g.stats.items():
        res.count('gen_' + k, v)
    res.sig = harness.stable_hash(sorted((d.kind, sorted(decl_features(d)),
                                          d.syntax.kind + ':' + str(d.syntax.ref and d.syntax.ref[0])
                                          if d.kind in ('objecttype', 'type', 'tc') else '')
                                         for m in g.modules for d in m.decls))
    res.nontrivial = len(kinds) >= 3 and comments >= 1
    res.evals = nlay * len(units)
    if idx % 800 == 0:
        lay = Layout(rng, 'noisy')
        res.sample = {'text': lay.join(g.modules[-1].tokens())[:1800], 'kinds': sorted(kinds)}
