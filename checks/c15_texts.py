"""C15 - descriptive texts reach the output intact and only when requested."""
import re

from vlib import gen, harness, pipeline, compiled
from vlib.mib import pyname

ID = 'C15'
LEVEL = 'exploration'
RULE = ('text generator over character classes (letters, digits, punctuation, apostrophes and triple '
        'apostrophes, backslash sequences incl. a trailing backslash, Jinja / Python syntax such as '
        '{{ }} {% %} # %s, tabs, CR / LF / CRLF line breaks, leading and trailing blanks, non-ASCII, '
        'empty, unbroken words longer than 79 characters, hyphenated compounds) placed in every '
        'text-bearing clause of every declaration kind; both back ends x genTexts on/off x default / '
        'identity text filter; JSON texts compared exactly (identity) or whitespace-normalised '
        '(default); pysnmp texts read back from the executed module (loadTexts on) and compared up to '
        'whitespace; non-trivial = text with a character outside [A-Za-z0-9 ]; distinct = multiset of '
        '(clause, character classes)')
ASSUMPTIONS = ['texts never contain the double quote (the lexer ends a string there) nor NUL',
               '"up to whitespace" = runs of white space collapsed and ends stripped']


def plan(tier, seed):
    if tier == 'quick':
        return {'n': 1300, 'budget_s': 45, 'min_evals': 600,
                'floors': {'json_texts_compared': 10000, 'pysnmp_texts_compared': 5000,
                           'absence_checks': 5000, 'special_texts': 5000}}
    return {'n': 30000, 'budget_s': 600, 'min_evals': 14000,
            'floors': {'json_texts_compared': 250000, 'pysnmp_texts_compared': 120000,
                       'absence_checks': 120000, 'special_texts': 120000}}


PIECES = {
    'plain': ['alpha beta', 'Gamma 42', 'the quick brown fox'],
    'punct': ["it's", ';:,.!?', '(a) [b] <c> &amp;', 'a=b+c*d/e', '100%', '$HOME', '@x', '^~|'],
    'apos': ["'", "''", "'''", "'''doc'''", "x'y'z"],
    'backslash': ['\\n', '\\x41', '\\\\', 'C:\\temp\\new', '\\u0041', '\\', 'end\\'],
    'jinja': ['{{ x }}', '{% if y %}', '{# c #}', '#', '# not a comment', '%s %d', '${v}', '{0}'],
    'tab': ['a\tb', '\tlead', 'trail\t'],
    'newline': ['line1\nline2', 'a\r\nb', 'c\rd', 'para\n\n  indented\n', '\nleading nl'],
    'blank': ['  two lead', 'two trail  ', ' '],
    'nonascii': [u'caf\xe9', u'\u4e16\u754c', u'na\xefve \u20ac', u'\U0001f600'],
    'long': ['x' * 85, 'http://example.org/' + 'a' * 90, 'w' * 200],
    'hyphen': ['well-known-compound-word ' * 6, 'state-of-the-art ' * 8],
    'dashes': ['a -- b', '--', 'x--y'],
    # white space other than blank, tab and the three line ends: page breaks of RFC texts and friends
    'separators': ['page\fbreak', 'a\vb', 'x\x1cy\x1dz\x1e', u'nel\x85here', u'ls\u2028ps\u2029end'],
}


def make_text(rng, stats=None):
    r = rng.random()
    if r < 0.04:
        return ''
    classes = rng.sample(sorted(PIECES), rng.randint(1, 3))
    parts = []
    for c in classes:
        parts.append(rng.choice(PIECES[c]))
        if rng.random() < 0.5:
            parts.append(rng.choice(PIECES['plain']))
    rng.shuffle(parts)
    t = rng.choice([' ', ' ', '\n', '  ']).join(parts)
    return t


def ws(t):
    return re.sub(r'\s+', ' ', t).strip()


def wsn(t):
    return re.sub(r'\s+', ' ', t)


def special(t):
    return bool(re.search(r'[^A-Za-z0-9 ]', t))


def make_set(rng, tier):
    prof = gen.profile(modules=(1, 2), nodes=(1, 3), scalars=(1, 4), tables=(0, 1), types=(0, 3),
                       notifs=(0, 2), groups=(0, 2), syntax='rich',
                       features=['compliance', 'capabilities', 'types', 'traps'],
                       p_hyphen=0.1, p_identity=0.8, text_fn=make_text)
    return gen.SetGen(rng, prof).build()


# clause -> (json key, pysnmp getter or attribute) per declaration kind
def clauses(d):
    out = []
    k = d.kind
    if k == 'moduleidentity':
        out += [('ORGANIZATION', d.organization, 'organization', 'getOrganization', True),
                ('CONTACT-INFO', d.contact, 'contactinfo', 'getContactInfo', True),
                ('DESCRIPTION', d.descr, 'description', 'getDescription', True)]
    elif k in ('objectidentity', 'objecttype', 'notificationtype', 'objectgroup', 'notificationgroup',
               'modulecompliance', 'agentcapabilities', 'traptype'):
        if d.descr is not None:
            out.append(('DESCRIPTION', d.descr, 'description', 'getDescription', True))
        if d.ref is not None:
            out.append(('REFERENCE', d.ref, 'reference', 'getReference', True))
        if k == 'objecttype' and d.units is not None:
            out.append(('UNITS', d.units, 'units', 'getUnits', False))
        if k == 'agentcapabilities':
            out.append(('PRODUCT-RELEASE', d.release, 'productrelease', 'getProductRelease', False))
    elif k == 'tc':
        out.append(('DESCRIPTION', d.descr, 'description', 'description', True))
        if d.ref is not None:
            out.append(('REFERENCE', d.ref, 'reference', 'reference', True))
        if d.display is not None:
            out.append(('DISPLAY-HINT', d.display, 'displayhint', 'displayHint', False))
    return out


def run_case(idx, rng, tier, res):
    g = make_set(rng, tier)
    texts = g.texts()
    gt = idx % 3 != 0
    identity = idx % 2 == 0
    opts = {'genTexts': gt}
    if identity:
        opts['textFilter'] = lambda symbol, text: text
    # a quarter of the sets travel through a real directory and the FileReader (line ends and all)
    via_files = rng.random() < 0.25
    if via_files:
        res.count('sets_read_through_the_file_reader')
    c = compiled.Compiled(g, texts, load_texts=True, via_files=via_files, **opts)
    replay = {'texts': texts, 'genTexts': gt, 'identity_filter': identity, 'via_files': via_files}
    for b, n, st, err in c.status_problems():
        res.violation('not_compiled', '%s: %s is %s (%s)' % (b, n, st, err), replay=replay, backend=b)
    sig = []
    for m in g.modules:
        doc = c.docs.get(m.name)
        ns = c.ns(m.name)
        err = c.exec_error(m.name)
        if err is not None and not isinstance(err, pipeline.DependencyFailed):
            cls = sorted(set(k for k, v in PIECES.items() for p in v if any(
                p in t for d in m.decls for (_c, t, _j, _g, _x) in clauses(d))))
            res.violation('pysnmp_exec', '%s: executing the generated module raised %r' % (m.name, err),
                          replay=replay, exc=type(err).__name__, genTexts=gt, identity=identity)
        for d in m.decls:
            e = doc.get(pyname(d.name)) if doc else None
            o = ns.get(pyname(d.name)) if ns else None
            for clause, src, jkey, getter, gated in clauses(d):
                feat = dict(clause=clause, kind=d.kind, genTexts=gt, identity=identity,
                            backslash='\\' in src, newline=bool(re.search(r'[\r\n]', src)),
                            longword=bool(re.search(r'\S{80,}', src)), hyphen='-' in src,
                            nonascii=bool(re.search(r'[^\x00-\x7f]', src)))
                where = '%s::%s %s' % (m.name, d.name, clause)
                if special(src):
                    res.count('special_texts')
                    res.nontrivial = True
                sig.append((clause, feat['backslash'], feat['newline'], feat['longword'], feat['nonascii']))
                # ---- JSON
                if e is not None:
                    got = e.get(jkey)
                    if gated and not gt:
                        res.count('absence_checks')
                        if got is not None:
                            res.violation('json_text_without_request', '%s present in JSON although genTexts is off: %r' % (
                                where, got[:60]), replay=replay, **feat)
                    elif got is not None:
                        res.count('json_texts_compared')
                        res.cell('json:%s' % clause)
                        if identity:
                            ok = got == src
                        else:
                            ok = got == wsn(src) or (not gated and got == src and clause != 'UNITS')
                        if not ok:
                            res.violation('json_text_altered', '%s: JSON holds %r, source %r (%s filter)' % (
                                where, got[:120], src[:120], 'identity' if identity else 'default'), replay=replay, **feat)
                    elif src != '' and (gt or not gated) and d.kind != 'traptype':
                        res.violation('json_text_missing', '%s: not in JSON although requested (source %r)' % (
                            where, src[:80]), replay=replay, **feat)
                # ---- pysnmp
                if o is not None:
                    try:
                        if d.kind == 'tc':
                            got = getattr(o, getter, None)
                        else:
                            fn = getattr(o, getter, None)
                            got = fn() if fn else None
                    except AttributeError:
                        continue        # never set on this object: not emitted
                    except Exception as exc:
                        got = None
                        res.violation('pysnmp_text_unreadable', '%s: %s() raised %r' % (where, getter, exc),
                                      replay=replay, **feat)
                        continue
                    if got is None:
                        continue
                    if isinstance(got, bytes):
                        got = got.decode('utf-8', 'replace')
                    got = str(got)
                    if gated and not gt:
                        res.count('absence_checks')
                        if ws(got) != '':
                            res.violation('pysnmp_text_without_request', '%s set on the pysnmp object although '
                                          'genTexts is off: %r' % (where, got[:60]), replay=replay, **feat)
                    elif ws(got) != '' or ws(src) == '':
                        res.count('pysnmp_texts_compared')
                        res.cell('pysnmp:%s' % clause)
                        if ws(got) != ws(src):
                            res.violation('pysnmp_text_altered', '%s: executed module gives %r, source %r' % (
                                where, ws(got)[:140], ws(src)[:140]), replay=replay, **feat)
    # the same generator objects asked with texts first, then without: nothing may stick
    if idx % 5 == 1:
        for backend in ('json', 'pysnmp'):
            cg = pipeline.make_codegen(backend)
            try:
                pipeline.compile_set(texts, list(reversed(c.names)), codegen=cg, genTexts=True)
                r2, w2 = pipeline.compile_set(texts, list(reversed(c.names)), codegen=cg, genTexts=False)
            except Exception as exc:
                res.violation('sequence_raised', '%s: %r' % (backend, exc), replay=replay)
                continue
            res.count('on_then_off_sequences')
            outs = dict((m.name, w2[m.name][-1]) for m in g.modules if m.name in w2)
            rb2 = None
            if backend == 'pysnmp':
                rb2 = pipeline.RecBuilder(outs, load_texts=True)
                rb2.run_all()
            for m in g.modules:
                if m.name not in outs:
                    continue
                doc2 = pipeline.load_json(outs[m.name]) if backend == 'json' else None
                ns2 = rb2.namespaces.get(m.name) if (rb2 and m.name not in rb2.errors) else None
                for d in m.decls:
                    for clause, src, jkey, getter, gated in clauses(d):
                        if not gated or ws(src) == '':
                            continue
                        stuck = None
                        if doc2 is not None:
                            e2 = doc2.get(pyname(d.name))
                            if isinstance(e2, dict) and e2.get(jkey) is not None:
                                stuck = e2.get(jkey)
                        elif ns2 is not None:
                            o2 = ns2.get(pyname(d.name))
                            try:
                                got2 = getattr(o2, getter, None) if d.kind == 'tc' else getattr(o2, getter)()
                            except Exception:
                                got2 = None
                            if got2 is not None and ws(str(got2)) != '':
                                stuck = got2
                        if stuck is not None:
                            res.violation('text_sticks_after_request', '%s backend: %s::%s %s text %r present in a '
                                          'genTexts=False run that follows a genTexts=True run on the same generator' % (
                                              backend, m.name, d.name, clause, str(stuck)[:60]), replay=replay,
                                          backend=backend)
    res.sig = harness.stable_hash(sorted(set(sig)))
    if idx % 400 == 0:
        d = [dd for m in g.modules for dd in m.decls if clauses(dd)]
        res.sample = {'genTexts': gt, 'identity_filter': identity,
                      'texts': [(dd.kind, cl, t[:80]) for dd in d[:4] for cl, t, _j, _g, _x in clauses(dd)]}


def extra(tier, seed, emit):
    """the command-line path: mibdump json with every combination of --generate-mib-texts and
    --keep-texts-layout; texts emitted regardless of genTexts (UNITS, revision descriptions) must be
    exact when the layout is kept, gated texts must be absent without --generate-mib-texts"""
    import json
    import os
    import shutil
    import subprocess
    import tempfile
    from vlib import env, orch
    res = harness.Result(-1)
    res.evals = 0
    base = tempfile.mkdtemp(prefix='verif-c15cli-', dir=env.scratch_root())
    try:
        src = os.path.join(base, 'src')
        os.makedirs(src)
        for b in orch.BASE:
            with open(os.path.join(src, b), 'w') as f:
                f.write(pipeline.fixtures()[b])
        units = 'milli  seconds\tper   tick'
        descr = 'first line\n   second   line\twith tab'
        revd = 'revision  text\n  on two lines'
        mibtext = ('CLI-MIB DEFINITIONS ::= BEGIN\nIMPORTS MODULE-IDENTITY, OBJECT-TYPE, enterprises, Integer32 FROM SNMPv2-SMI;\n'
                   'cliId MODULE-IDENTITY LAST-UPDATED "200001010000Z" ORGANIZATION "o  o" CONTACT-INFO "c" DESCRIPTION "%s"\n'
                   ' REVISION "200001010000Z" DESCRIPTION "%s" ::= { enterprises 4711 }\n'
                   'cliObj OBJECT-TYPE SYNTAX Integer32 UNITS "%s" MAX-ACCESS read-only STATUS current DESCRIPTION "%s" ::= { cliId 1 }\nEND\n'
                   % (descr, revd, units, descr))
        with open(os.path.join(src, 'CLI-MIB'), 'w') as f:
            f.write(mibtext)
        for gt in (False, True):
            for keep in (False, True):
                dst = os.path.join(base, 'dst_%d%d' % (gt, keep))
                args = ['--mib-source=' + src, '--destination-directory=' + dst, '--destination-format=json',
                        '--mib-borrower=' + base] + (['--generate-mib-texts'] if gt else []) + \
                    (['--keep-texts-layout'] if keep else []) + ['CLI-MIB']
                e = env.child_env()
                e['PYTHONPATH'] = env.REPO
                e['HOME'] = base
                p = subprocess.run([env.PYTHON, os.path.join(env.REPO, 'scripts', 'mibdump.py')] + args, env=e,
                                   stdout=subprocess.PIPE, stderr=subprocess.PIPE, timeout=300, cwd=base)
                res.evals += 1
                res.count('cli_text_runs')
                feat = dict(genTexts=gt, identity=keep, clause='cli')
                try:
                    with open(os.path.join(dst, 'CLI-MIB.json')) as f:
                        doc = json.load(f)
                except Exception as exc:
                    res.violation('cli_no_output', 'mibdump %r: %r %s' % (args[3:], exc, p.stderr.decode('utf-8', 'replace')[-300:]), **feat)
                    continue
                want = (lambda t: t) if keep else wsn
                obj, ident = doc.get('cliObj', {}), doc.get('cliId', {})
                if obj.get('units') != want(units):
                    res.violation('cli_text_altered', 'mibdump %s: UNITS is %r, expected %r' % (args[4:-1], obj.get('units'), want(units)), **feat)
                revs = ident.get('revisions') or [{}]
                if revs[0].get('description') != want(revd):
                    res.violation('cli_text_altered', 'mibdump %s: revision description is %r, expected %r' % (
                        args[4:-1], revs[0].get('description'), want(revd)), **feat)
                for e_, key in ((obj, 'description'), (ident, 'description'), (ident, 'organization')):
                    if gt:
                        src_t = descr if key == 'description' else 'o  o'
                        if e_.get(key) != want(src_t):
                            res.violation('cli_text_altered', 'mibdump %s: %s is %r, expected %r' % (
                                args[4:-1], key, e_.get(key), want(src_t)), **feat)
                    elif e_.get(key) is not None:
                        res.violation('cli_text_without_request', 'mibdump %s: %s present without --generate-mib-texts' % (
                            args[4:-1], key), **feat)
    finally:
        shutil.rmtree(base, ignore_errors=True)
    res.sig = 'cli'
    res.nontrivial = True
    emit(res)
