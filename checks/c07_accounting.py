"""C07 - compile() accounts for every module; statuses match effects; errors contained."""
from vlib import orch, harness

ID = 'C07'
CONTRACTS = True     # icontract recording contracts ride along (vlib/contracts.py)
LEVEL = 'fault_enumeration'
RULE = ('scenario = import graph (9 canonical + random, with cycles, self loops, alias and '
        'multi-module files) x per-source outcome per module (absent / ok / reader error / empty / '
        'comments / truncated / lexical / syntax / unresolved parent / duplicate symbol / '
        'codegen-only failure) x scripted parser, code generator, searcher, borrower, writer faults '
        'x compile options; plus source-free failpoints: a sys.monitoring LINE callback raises the '
        'component\'s package error at a random executed line inside pysmi/{codegen,parser,lexer,'
        'searcher,borrower} during compiles with the real components; phase 1 enumerates every single-fault placement on the canonical graphs, '
        'phase 2 draws random multi-fault scenarios; non-trivial = >=1 injected fault and >=2 '
        'modules; distinct = hash of the scenario')
ASSUMPTIONS = ['component doubles raise only the package\'s own exception classes',
               'text defects are limited to the lexical / syntactic / semantic kinds the property names',
               'faults are never injected inside compiler.py itself']

SINGLE_FAULTS = [('source', f) for f in orch.TEXT_FAULTS + orch.CODEGEN_FAULTS + ('absent',)] + \
    [('source_error', k) for k in ('reader', 'generic')] + \
    [('parser', 'parser'), ('parser', 'lexer'), ('codegen', 'codegen'), ('codegen', 'semantic'),
     ('writer', 'error'), ('searcher', 'error'), ('none', None)]
# what the random phase draws per module and source: every source-level outcome, or a parser fault
RANDOM_FAULTS = [f for f in SINGLE_FAULTS if f[0] in ('source', 'source_error')] + [('parser', 'parser')]
OPTION_SETS_QUICK = [
    {}, {'ignoreErrors': True}, {'noDeps': True}, {'dryRun': True}, {'writeMibs': False},
    {'rebuild': True}, {'genTexts': True}, {'noDeps': True, 'ignoreErrors': True},
    {'ignoreErrors': True, 'writeMibs': False}, {'rebuild': True, 'noDeps': True},
    {'genTexts': True, 'ignoreErrors': True}, {'dryRun': True, 'ignoreErrors': True},
]


def enumerated():
    """every single-fault placement on the canonical graphs x option sets"""
    cases = []
    for gname in sorted(orch.GRAPHS):
        mods, g = orch.GRAPHS[gname]
        for victim in mods:
            for stage, kind in SINGLE_FAULTS:
                for oi in range(len(OPTION_SETS_QUICK)):
                    cases.append((gname, victim, stage, kind, oi))
    return cases


_ENUM = None


def plan(tier, seed):
    global _ENUM
    if _ENUM is None:
        _ENUM = enumerated()
    if tier == 'quick':
        return {'n': len(_ENUM) + 800, 'budget_s': 45, 'min_evals': 2000,
                'floors': {'faults_injected': 1500, 'putData_seen': 1000, 'failpoints_fired': 1500}}
    return {'n': 2 * len(_ENUM) + 60000, 'budget_s': 600, 'min_evals': 20000,
            'floors': {'faults_injected': 20000, 'putData_seen': 10000, 'failpoints_fired': 50000}}


def build_enumerated(case, rng):
    gname, victim, stage, kind, oi = case
    mods, g = orch.GRAPHS[gname]
    requested = [mods[0]] if gname != 'two_roots' else mods[:2]
    scn = orch.new_scenario(mods, g, requested, nsources=1)
    scn['options'] = dict(OPTION_SETS_QUICK[oi])
    apply_fault(scn, victim, stage, kind, 0)
    if rng.random() < 0.5:
        add_borrowers(scn, rng)
    return scn, gname


def apply_fault(scn, victim, stage, kind, si):
    if stage == 'source':
        scn['sources'][si][victim] = kind
    elif stage == 'source_error':
        scn['sources'][si][victim] = ('error', kind)
    elif stage == 'parser':
        scn['parser_script'][victim] = kind
    elif stage == 'codegen':
        scn['codegen_script'][victim] = kind
    elif stage == 'writer':
        scn['writer'][victim] = 'error'
    elif stage == 'searcher':
        scn['searchers'].append({'table': {victim: 'error'}})


def add_borrowers(scn, rng):
    for _ in range(rng.randint(1, 2)):
        table = {}
        for m in scn['modules']:
            r = rng.random()
            if r < 0.4:
                table[m] = 'BORROWED %s by %d\n' % (m, len(scn['borrowers']))
            elif r < 0.5:
                table[m] = 'error'
        scn['borrowers'].append({'genTexts': rng.random() < 0.5, 'kind': rng.choice(['any', 'py']),
                                 'table': table, 'alias': 'lower' if rng.random() < 0.25 else None})


def build_random(rng, tier):
    kind = rng.random()
    if kind < 0.4:
        gname = rng.choice(sorted(orch.GRAPHS))
        mods, g = orch.GRAPHS[gname]
        g = dict((k, list(v)) for k, v in g.items())
    else:
        gname = 'random'
        mods, g = orch.random_graph(rng, nmax=5 if tier == 'quick' else 7)
    requested = [m for m in mods if rng.random() < 0.4] or [mods[0]]
    rng.shuffle(requested)
    if rng.random() < 0.1:
        requested.append(requested[0])      # requested twice
    ns = rng.choice([1, 1, 2, 3])
    scn = orch.new_scenario(mods, g, requested, nsources=ns)
    for si in range(ns):
        for m in mods:
            r = rng.random()
            if ns > 1 and r < 0.35:
                scn['sources'][si][m] = 'absent'
            elif r < 0.5:
                stage, k = rng.choice(RANDOM_FAULTS)
                apply_fault(scn, m, stage, k, si)
    for m in mods:
        r = rng.random()
        if r < 0.06:
            scn['parser_script'][m] = rng.choice(['parser', 'lexer', 'syntax'])
        elif r < 0.12:
            scn['codegen_script'][m] = rng.choice(['codegen', 'semantic'])
        elif r < 0.18:
            scn['writer'][m] = 'error'
    for _ in range(rng.choice([0, 0, 1, 2])):
        scn['searchers'].append({'table': dict((m, rng.choice(['fresh', 'absent', 'absent', 'error']))
                                               for m in mods), 'stub': rng.random() < 0.2})
    if rng.random() < 0.5:
        add_borrowers(scn, rng)
    # alias file for a requested leaf nobody imports
    imported = set(d for v in g.values() for d in v)
    for r in list(scn['requested']):
        if r not in imported and rng.random() < 0.15 and scn['requested'].count(r) == 1:
            alias = r.lower().replace('-mib', '-file')
            scn['files'][alias] = [r]
            scn['requested'][scn['requested'].index(r)] = alias
    scn['options'] = dict((k, True) for k in orch.OPTION_NAMES[:5] if rng.random() < 0.25)
    if rng.random() < 0.15:
        scn['options']['writeMibs'] = False
    # SMIv1 style dependencies (all their symbols are rewritten to SMIv2 homes): still part of the
    # closure - when no source holds them they are missing and count as a failure
    if rng.random() < 0.2:
        scn['base_extra'] = [b for b in sorted(orch.V1_BASE) if rng.random() < 0.6]
        for m in mods:
            if rng.random() < 0.4:
                scn['graph'][m] = scn['graph'][m] + rng.sample(sorted(orch.V1_BASE), rng.randint(1, 2))
    return scn, gname


def build_partial_multi(rng):
    """stress: one file holds a healthy requested module followed by a module with a semantic defect"""
    mods = ['AA-MIB', 'EE-MIB', 'BB-MIB']
    scn = orch.new_scenario(mods, {'AA-MIB': ['BB-MIB']}, ['AA-MIB'])
    scn['files']['AA-MIB'] = ['AA-MIB', 'EE-MIB']
    scn['sources'][0].pop('EE-MIB')
    scn['extra_variant'] = {'EE-MIB': rng.choice(['dupsym', 'unresolved', 'untyped'])}
    scn['options'] = {'ignoreErrors': True} if rng.random() < 0.7 else {}
    return scn, 'partial_multi_file'


def build_twice_held(rng):
    """stress: a module's own file is broken while a healthy copy of the module sits in another
    module's file (second position); both are requested"""
    mods = ['XX-MIB', 'YY-MIB']
    g = {'YY-MIB': ['XX-MIB']} if rng.random() < 0.5 else {}
    req = ['XX-MIB', 'YY-MIB'] if rng.random() < 0.7 else ['YY-MIB', 'XX-MIB']
    scn = orch.new_scenario(mods, g, req)
    scn['files']['YY-MIB'] = ['YY-MIB', 'XX-MIB']
    scn['sources'][0].pop('XX-MIB')
    scn['own_files'] = {'XX-MIB': rng.choice(['synerr', 'lexerr', 'truncated', 'unresolved', 'dupsym', 'untyped'])}
    scn['options'] = {'ignoreErrors': True} if rng.random() < 0.7 else {}
    return scn, 'twice_held'


_TPL = []


def broken_templates():
    """a directory of user templates that jinja2 refuses in four different ways"""
    import atexit
    import os
    import shutil
    import tempfile
    from vlib import env
    if not _TPL:
        d = tempfile.mkdtemp(prefix='verif-c07t-', dir=env.scratch_root())
        for name, body in (('syntax.j2', '{% if %}oops{% endif %}\n'), ('filter.j2', '{{ mib|nosuchfilter }}\n'),
                           ('include.j2', '{% include "nowhere/nothing.j2" %}\n'),
                           ('undefined.j2', '{{ nosuchvariable.attribute }}\n')):
            with open(os.path.join(d, name), 'w') as f:
                f.write(body)
        atexit.register(shutil.rmtree, d, True)
        _TPL.append(d)
    return _TPL[0]


def case_broken_template(idx, rng, res):
    """stress: the code generator is asked to render through a user template jinja2 refuses - a
    component failure signalled with the package's error: every generated module is failed, nothing
    escapes, nothing is written for the failed ones"""
    import os
    gname = rng.choice(['single', 'chain2', 'star'])
    mods, g = orch.GRAPHS[gname]
    scn = orch.new_scenario(mods, g, [mods[0]])
    tpl = rng.choice(['syntax.j2', 'filter.j2', 'include.j2', 'undefined.j2', 'missing.j2'])
    scn['options'] = dict(rng.choice([{}, {'ignoreErrors': True}, {'genTexts': True}]), dstTemplate=tpl)
    backend = rng.choice(['json', 'pysnmp'])
    cwd = os.getcwd()
    os.chdir(broken_templates())
    try:
        run = orch.execute(scn, codegen=backend)
    finally:
        os.chdir(cwd)

    def V(monitor, detail, **features):
        res.violation(monitor, detail, replay=dict(scn, backend=backend), broken_template=tpl, backend=backend, **features)
    res.count('stress_broken_template')
    res.sig = harness.stable_hash(['tpl', scn, backend])
    if 'exception' in run:
        exc = run['exception']
        V('I1_exception_escaped', 'compile() raised %s: %s' % (type(exc).__name__, str(exc)[:200]), exc=type(exc).__name__)
        return
    from pysmi import error as perr
    result = run['result']
    puts = [e['name'] for e in run['trace'].select('writer', 'putData', 'call')]
    for m in mods:
        st = result.get(m)
        if st != 'failed' or not isinstance(getattr(st, 'error', None), perr.PySmiCodegenError):
            V('I6_template_failure_status', '%s is %r (error %r), expected failed with the code generator\'s error' % (
                m, str(st), getattr(st, 'error', None)))
        if m in puts:
            V('I4_write_without_status', '%s handed to the writer although its rendering failed' % m, status=str(st))


def case_failpoints(idx, rng, tier, res):
    """real components, one package error raised at a random executed line inside a component"""
    from vlib import failpoints
    gname = rng.choice(['chain2', 'chain3', 'diamond', 'star', 'cycle2'])
    mods, g = orch.GRAPHS[gname]
    scn = orch.new_scenario(mods, g, [mods[0]])
    scn['options'] = dict(rng.choice(OPTION_SETS_QUICK[:4]))
    if rng.random() < 0.5:
        add_borrowers(scn, rng)
    fp = failpoints.LineFailpoints()
    holder = {'target': None}
    backend = rng.choice(['json', 'pysnmp'])

    def go():
        # the failpoint is armed around compile() only, never while components are being built
        holder['run'] = orch.execute(scn, codegen=backend, around=lambda call: fp.run(call, holder['target']))
    go()
    total = fp.count
    res.count('failpoint_lines_available', total)
    nsamples = 10 if tier == 'quick' else 30
    done = 0
    for _ in range(nsamples):
        k = rng.randrange(total)
        holder['target'] = k
        go()
        if fp.hit is None:
            continue
        done += 1
        run = holder['run']
        res.count('failpoints_fired')
        res.cell('failpoint:' + fp.hit[0].split('/')[1])
        hit = '%s:%d %s' % fp.hit

        def V(monitor, detail, **features):
            res.violation('failpoint_' + monitor, 'package error raised at %s: %s' % (hit, detail),
                          replay={'scenario': scn, 'line_event': k, 'site': hit}, site=fp.hit[0], **features)
        if 'exception' in run:
            exc = run['exception']
            V('I1_exception_escaped', 'compile() raised %s: %s' % (type(exc).__name__, str(exc)[:200]),
              exc=type(exc).__name__)
            continue
        result = run['result']
        tr = run['trace']
        for r in scn['requested']:
            if r not in result:
                V('I2_requested_unaccounted', '%s absent from %r' % (r, dict((a, str(b)) for a, b in result.items())))
        for kk, v in result.items():
            if str(v) not in orch.STATUSES:
                V('I2_unknown_status', '%s -> %r' % (kk, v))
            if v == 'failed':
                from pysmi import error as perr
                if not isinstance(getattr(v, 'error', None), perr.PySmiError):
                    V('I6_failed_without_error', '%s failed, .error is %r' % (kk, getattr(v, 'error', None)))
        puts = {}
        for e in tr.select('writer', 'putData', 'call'):
            puts[e['name']] = puts.get(e['name'], 0) + 1
        if any(n > 1 for n in puts.values()):
            V('I3_written_twice', repr(puts))
        ok_puts = set(e['name'] for e in tr.select('writer', 'putData', 'ret'))
        if scn['options'].get('writeMibs', True):
            for kk, v in result.items():
                if v in ('compiled', 'borrowed') and kk not in ok_puts:
                    V('I4_status_without_write', '%s reported %s, never written' % (kk, v))
            for kk in ok_puts:
                if result.get(kk) not in ('compiled', 'borrowed'):
                    V('I4_write_without_status', '%s written, reported %r' % (kk, str(result.get(kk))))
        bad = [kk for kk, v in result.items() if v in ('failed', 'missing')]
        if bad and not scn['options'].get('ignoreErrors') and puts:
            V('C09_written_despite_failure', 'failures %s, written %s' % (bad, sorted(puts)))
    res.evals = done + 1
    res.sig = harness.stable_hash(['fp', scn])
    res.nontrivial = done > 0


def run_case(idx, rng, tier, res):
    plan(tier, 0)
    if idx % 13 == 12:
        return case_failpoints(idx, rng, tier, res)
    if idx % 97 == 94:
        return case_broken_template(idx, rng, res)
    if idx % 97 == 95:
        scn, gname = build_twice_held(rng)
        run = orch.execute(scn)

        def Vt(monitor, detail, **features):
            if monitor == 'I7_module_dropped':
                return
            res.violation(monitor, detail, replay=scn, twice_held=True, **features)
        orch.check_accounting(scn, run, Vt, compare_model=False)
        res.count('stress_twice_held')
        res.sig = harness.stable_hash(scn)
        return
    if idx % 97 == 96:
        scn, gname = build_partial_multi(rng)
        run = orch.execute(scn)

        def Vs(monitor, detail, **features):
            if monitor == 'I7_module_dropped':
                return      # the reference model does not describe the broken second module
            res.violation(monitor, detail, replay=scn, partial_multi_file=True, **features)
        orch.check_accounting(scn, run, Vs, compare_model=False)
        res.count('stress_partial_multi_file')
        res.sig = harness.stable_hash(scn)
        return
    # the two phases are interleaved (even index: next enumerated placement, odd: random scenario) so
    # that a time budget cut trims both alike
    stride = 2 if tier == 'quick' else 1
    e = idx // 2
    if idx % 2 == 0 and e * stride < len(_ENUM):
        scn, gname = build_enumerated(_ENUM[(e * stride + (rng.random() < 0.5 and stride - 1 or 0))
                                            % len(_ENUM)], rng)
        phase = 'enumerated'
    else:
        scn, gname = build_random(rng, tier)
        phase = 'random'
    run = orch.execute(scn)

    def V(monitor, detail, **features):
        res.violation(monitor, detail, replay=scn, **features)

    orch.check_accounting(scn, run, V)
    tr = run['trace']
    nfaults = sum(1 for s in scn['sources'] for o in s.values() if o not in ('ok', 'absent')) + \
        len(scn['parser_script']) + len(scn['codegen_script']) + len(scn['writer'])
    res.count('faults_injected', nfaults)
    res.count('putData_seen', len(tr.select('writer', 'putData', 'call')))
    res.count('trace_events', len(tr.events))
    res.count('phase_' + phase)
    res.cell('graph:' + gname, 'opts:' + ','.join(sorted(k for k, v in scn['options'].items() if v)))
    if 'result' in run:
        for v in run['result'].values():
            res.cell('status:' + str(v))
    res.sig = harness.stable_hash([scn, tr.shape()])
    res.nontrivial = nfaults >= 1 and len(scn['modules']) >= 2
    if idx % 1500 == 0:
        res.sample = {'scenario': scn,
                      'result': dict((k, str(v)) for k, v in run.get('result', {}).items()),
                      'trace': [(e['comp'], e['op'], e['phase'], e.get('name')) for e in tr.events][:40]}
