"""C17 - grammar relaxations only add accepted inputs and mean what they say."""
import itertools

from vlib import gen, harness, pipeline, mib
from vlib.layout import Layout
from checks import c02_ast

ID = 'C17'
LEVEL = 'exploration'
RULE = ('well-formed texts of the C02 generator x parsers built from subsets of the nine relaxation '
        'options (the 3 shipped dialects, all buildable single options, random subsets; thorough: all '
        '384 buildable subsets): a text accepted under S must give the identical tree under every '
        'buildable superset S\'; documented breakages (trailing comma in IMPORTS / SEQUENCE / '
        'enumeration, missing comma in enumeration, upper-case enum label, upper-case notification '
        'name, braces around ENTERPRISE, empty CREATION-REQUIRES, typed INDEX entries, NetworkAddress) '
        'are planted in the *model* at a random applicable site, rendered, and must parse under every '
        'subset containing the option to the tree of the model (= tree of the corrected text); '
        'every tenth case is a hand-made corner text (object names in OID form - zero, numbers first, '
        'several sub-identifiers - wherever the grammar takes an ObjectName; zero valued ranges and '
        'defaults) judged along the inclusion pairs only; '
        'unknown option names must raise the package error; non-trivial = a breakage or an inclusion '
        'pair was judged; distinct = hash(text, subsets)')
ASSUMPTIONS = ['supportIndex needs supportSmiV1Keywords to build (not a property of the statement; such '
               'subsets are skipped and counted)', 'texts never use NetworkAddress / MAX as plain words']

OPTIONS = ['supportSmiV1Keywords', 'supportIndex', 'commaAtTheEndOfImport', 'commaAtTheEndOfSequence',
           'mixOfCommasAndSpaces', 'uppercaseIdentifier', 'lowcaseIdentifier',
           'curlyBracesAroundEnterpriseInTrap', 'noCells']
_CACHE = {}
_UNBUILDABLE = set()


def plan(tier, seed):
    if tier == 'quick':
        return {'n': 2800, 'budget_s': 45, 'min_evals': 6000,
                'floors': {'parses': 15000, 'inclusion_pairs': 6000, 'breakages_planted': 1200,
                           'breakage_accepted_under_option': 1200, 'subsets_built': 100,
                           'unknown_option_checks': 50, 'corner_texts_accepted': 150}}
    return {'n': 50000, 'budget_s': 650, 'min_evals': 200000,
            'floors': {'parses': 600000, 'inclusion_pairs': 300000, 'breakages_planted': 40000,
                       'breakage_accepted_under_option': 40000, 'subsets_built': 384 * 4,
                       'unknown_option_checks': 1500, 'corner_texts_accepted': 3000}}


def parser_for(subset, res=None):
    key = frozenset(subset)
    if key in _UNBUILDABLE:
        return None
    if key not in _CACHE:
        from pysmi.parser.smi import parserFactory
        try:
            _CACHE[key] = parserFactory(**dict((o, True) for o in key))()
            if res is not None:
                res.count('subsets_built')
        except Exception as exc:
            if 'supportIndex' in key and 'supportSmiV1Keywords' not in key:
                _UNBUILDABLE.add(key)
                if res is not None:
                    res.count('subsets_unbuildable')
                return None
            raise
        if len(_CACHE) > 80:
            for k in list(_CACHE)[:20]:
                if len(k) not in (0, 2, 9):
                    _CACHE.pop(k, None)
    return _CACHE[key]


_EXPLICIT = {}


def explicit_parser(subset, res):
    """the same relaxation set, spelled with every option named and False for the absent ones"""
    key = frozenset(subset)
    if key not in _EXPLICIT:
        from pysmi.parser.smi import parserFactory
        try:
            _EXPLICIT[key] = parserFactory(**dict((o, o in key) for o in OPTIONS))()
        except Exception:
            _EXPLICIT[key] = None
        if len(_EXPLICIT) > 40:
            _EXPLICIT.pop(next(iter(_EXPLICIT)))
    return _EXPLICIT[key]


def try_parse(subset, text, res):
    from pysmi import error
    p = parser_for(subset, res)
    if p is None:
        return None
    res.count('parses')
    try:
        return ('ok', p.parse(text))
    except (error.PySmiLexerError, error.PySmiParserError) as exc:
        return ('err', exc)
    except Exception as exc:
        _CACHE.pop(frozenset(subset), None)
        return ('other', exc)


BREAKAGES = ['import_comma', 'sequence_comma', 'enum_trailing', 'enum_spaces', 'upper_enum',
             'upper_notification', 'trap_braces', 'no_cells', 'typed_index', 'network_address']
NEEDS = {'import_comma': ['commaAtTheEndOfImport'], 'sequence_comma': ['commaAtTheEndOfSequence'],
         'enum_trailing': ['mixOfCommasAndSpaces'], 'enum_spaces': ['mixOfCommasAndSpaces'],
         'upper_enum': ['uppercaseIdentifier'], 'upper_notification': ['lowcaseIdentifier'],
         'trap_braces': ['curlyBracesAroundEnterpriseInTrap'], 'no_cells': ['noCells'],
         'typed_index': ['supportSmiV1Keywords', 'supportIndex'],
         'network_address': ['supportSmiV1Keywords']}


def enum_syntaxes(g):
    out = []
    for m in g.modules:
        for d in m.decls:
            s = getattr(d, 'syntax', None)
            if s is not None and s.kind == 'type' and s.ref and s.ref[0] == 'enum':
                out.append((m, d, s))
    return out


def plant(g, rng, kind):
    """mutate the model in place; returns a description or None when not applicable"""
    if kind == 'import_comma':
        ms = [m for m in g.modules if m.imports]
        if not ms:
            return None
        m = rng.choice(ms)
        m.import_trailing_comma = set([rng.randrange(len(m.imports))])
        return m.name
    if kind == 'sequence_comma':
        ds = [d for m in g.modules for d in m.decls if d.kind == 'sequence']
        if not ds:
            return None
        d = rng.choice(ds)
        d.trailing_comma = True
        return d.name
    if kind in ('enum_trailing', 'enum_spaces', 'upper_enum'):
        es = enum_syntaxes(g)
        if kind == 'enum_spaces':
            es = [e for e in es if len(e[2].ref[1]) >= 2]
        if not es:
            return None
        m, d, s = rng.choice(es)
        n = len(s.ref[1])
        if kind == 'enum_trailing':
            s.enum_style = ([','] * n, True)
        elif kind == 'enum_spaces':
            seps = [',' if rng.random() < 0.4 else '' for _ in range(n)]
            seps[rng.randrange(1, n)] = ''
            s.enum_style = (seps, rng.random() < 0.3)
        else:
            i = rng.randrange(n)
            lab, val = s.ref[1][i]
            s.ref[1][i] = (lab[0].upper() + lab[1:], val)
            if getattr(d, 'defval', None) is not None and d.defval.kind == 'enum' and d.defval.value == lab:
                d.defval = None
        return d.name
    if kind == 'upper_notification':
        ds = [d for m in g.modules for d in m.decls if d.kind == 'notificationtype']
        if not ds:
            return None
        d = rng.choice(ds)
        old = d.name
        d.name = old[0].upper() + old[1:]
        # references to it (groups) keep the old spelling: parse-level only
        return d.name
    if kind == 'trap_braces':
        ds = [d for m in g.modules for d in m.decls if d.kind == 'traptype']
        if not ds:
            return None
        d = rng.choice(ds)
        d.braces = True
        return d.name
    if kind == 'no_cells':
        vs = [v for m in g.modules for d in m.decls if d.kind == 'agentcapabilities'
              for s in d.supports for v in s['variations']]
        if not vs:
            return None
        v = rng.choice(vs)
        v['creation'] = []
        return v['name']
    if kind == 'typed_index':
        rows = [d for m in g.modules for d in m.decls
                if d.kind == 'objecttype' and getattr(d, 'index', None)]
        if not rows:
            return None
        d = rng.choice(rows)
        idx = list(d.index)
        i = rng.randrange(len(idx))
        idx[i] = (False, '', rng.choice(['INTEGER', 'OCTET STRING', 'IpAddress', 'NetworkAddress']))
        d.index = idx
        return d.name
    if kind == 'network_address':
        ds = [d for m in g.modules for d in m.decls if d.kind == 'objecttype' and d.role in ('scalar', 'column')
              and d.syntax.kind == 'type']
        if not ds:
            return None
        d = rng.choice(ds)
        d.syntax = mib.Syn('NetworkAddress', base='OctetString')
        d.defval = None
        for m in g.modules:
            for s in m.decls:
                if s.kind == 'sequence':
                    s.items = [(c, 'NetworkAddress' if c == d.name else t) for c, t in s.items]
        return d.name
    return None


def subsets_for_case(rng, tier, must):
    """a chain-rich family of subsets: shipped dialects, singletons, random ones"""
    from pysmi.parser import dialect as dl
    fam = [frozenset(), frozenset(k for k, v in dl.smiV1.items() if v),
           frozenset(k for k, v in dl.smiV1Relaxed.items() if v)]
    fam += [frozenset([o]) for o in rng.sample(OPTIONS, 2)]
    for _ in range(3 if tier == 'quick' else 6):
        k = rng.randint(1, 8)
        fam.append(frozenset(rng.sample(OPTIONS, k)))
    if must:
        fam.append(frozenset(must))
        fam.append(frozenset(must) | frozenset(rng.sample(OPTIONS, rng.randint(0, 4))))
    return list(dict.fromkeys(fam))


CORNER_REFS = ['0', '1', 'a', 'a 0', '0 1', 'iso 0', 'a b', 'b(0)', 'b(2) 0', '00', '4294967295']


def corner_text(rng):
    """hand-made texts the grammar accepts although no MIB author writes them: object names given in
    OID form (numbers first, zero, several sub-identifiers) wherever the grammar takes an ObjectName"""
    r = lambda: rng.choice(CORNER_REFS)  # noqa
    parts = ['CORNER-MIB DEFINITIONS ::= BEGIN']
    n = rng.randint(1, 4)
    for i in range(n):
        k = rng.randrange(6)
        if k == 0:
            parts.append('row%d OBJECT-TYPE SYNTAX RowT MAX-ACCESS not-accessible STATUS current DESCRIPTION "d" '
                         'INDEX { %s%s } ::= { %s }' % (i, rng.choice(['', 'IMPLIED ']), ', '.join(r() for _ in range(rng.randint(1, 3))), r()))
        elif k == 1:
            parts.append('aug%d OBJECT-TYPE SYNTAX RowT MAX-ACCESS not-accessible STATUS current DESCRIPTION "d" '
                         'AUGMENTS { %s } ::= { %s }' % (i, r(), r()))
        elif k == 2:
            parts.append('grp%d OBJECT-GROUP OBJECTS { %s } STATUS current DESCRIPTION "d" ::= { %s }' % (
                i, ', '.join(r() for _ in range(rng.randint(1, 3))), r()))
        elif k == 3:
            parts.append('ntf%d NOTIFICATION-TYPE OBJECTS { %s } STATUS current DESCRIPTION "d" ::= { %s }' % (
                i, ', '.join(r() for _ in range(rng.randint(1, 3))), r()))
        elif k == 4:
            parts.append('ngr%d NOTIFICATION-GROUP NOTIFICATIONS { %s } STATUS current DESCRIPTION "d" ::= { %s }' % (
                i, ', '.join(r() for _ in range(rng.randint(1, 2))), r()))
        else:
            parts.append('obj%d OBJECT-TYPE SYNTAX Integer32 (%s) MAX-ACCESS read-only STATUS current DESCRIPTION "d" '
                         'DEFVAL { %s } ::= { %s }' % (i, rng.choice(['0', '0..0', '-1..0', '0 | 2']),
                                                       rng.choice(['0', '{ 0 }', '{ 0 0 }', "''H", "'0'B"]), r()))
    parts.append('END')
    return rng.choice([' ', '\n']).join(parts) + '\n'


def case_corners(idx, rng, tier, res):
    text = corner_text(rng)
    fam = subsets_for_case(rng, tier, [])
    outcomes = {}
    for s in fam:
        oc = try_parse(s, text, res)
        if oc is None:
            continue
        outcomes[s] = oc
        if oc[0] == 'other':
            res.violation('foreign_exception', 'subset %s: %r' % (sorted(s), oc[1]),
                          replay={'text': text, 'subset': sorted(s)}, corner=True)
    for a, b in itertools.permutations(list(outcomes), 2):
        if not a < b:
            continue
        res.count('corner_inclusion_pairs')
        oa, ob = outcomes[a], outcomes[b]
        if oa[0] == 'ok':
            if ob[0] != 'ok':
                res.violation('superset_rejects', 'corner text accepted under %s but rejected under its superset %s: %s' % (
                    sorted(a), sorted(b), ob[1]), replay={'text': text, 'small': sorted(a), 'big': sorted(b)},
                    corner=True, added=','.join(sorted(b - a))[:80])
            elif oa[1] != ob[1]:
                res.violation('superset_tree_differs', 'corner text: tree under %s differs from the tree under %s at %s' % (
                    sorted(b), sorted(a), c02_ast.first_diff(ob[1], oa[1])),
                    replay={'text': text, 'small': sorted(a), 'big': sorted(b)}, corner=True)
    res.count('corner_texts')
    if any(o[0] == 'ok' for o in outcomes.values()):
        res.count('corner_texts_accepted')
    res.evals = len(outcomes)
    res.sig = harness.stable_hash([text, sorted(sorted(s) for s in outcomes)])
    res.nontrivial = len(outcomes) >= 2


def run_case(idx, rng, tier, res):
    from pysmi import error
    if idx % 10 == 9:
        return case_corners(idx, rng, tier, res)
    feats = [f for f in c02_ast.FEATURES]
    g = c02_ast.make_set(rng, tier, feats)
    kind = None
    site = None
    if idx % 3 != 0:
        order = list(BREAKAGES)
        rng.shuffle(order)
        for k in order:
            site = plant(g, rng, k)
            if site is not None:
                kind = k
                break
    must = NEEDS.get(kind, [])
    fam = subsets_for_case(rng, tier, must)
    mods = g.modules
    toks = []
    for m in mods:
        toks += m.tokens()
    lay = Layout(rng, 'noisy' if rng.random() < 0.5 else 'plain')
    text = lay.join(toks)
    expected = [m.ast() for m in mods]
    outcomes = {}
    for s in fam:
        oc = try_parse(s, text, res)
        if oc is None:
            continue
        outcomes[s] = oc
        if oc[0] == 'other':
            res.violation('foreign_exception', 'subset %s: %r' % (sorted(s), oc[1]),
                          replay={'text': text, 'subset': sorted(s)})
    # a dialect is the set of options that are *on*: naming the others with False changes nothing
    for s_ in list(outcomes)[:3]:
        p2 = explicit_parser(s_, res)
        if p2 is None:
            continue
        res.count('explicit_false_spellings')
        try:
            o2 = ('ok', p2.parse(text))
        except (error.PySmiLexerError, error.PySmiParserError) as exc:
            o2 = ('err', exc)
        except Exception as exc:
            _EXPLICIT.pop(frozenset(s_), None)
            o2 = ('other', exc)
        o1 = outcomes[s_]
        if o1[0] != o2[0] or (o1[0] == 'ok' and o1[1] != o2[1]):
            res.violation('false_option_matters', 'dialect %s: with the remaining options passed as False the same text is '
                          '%s (%s), without them %s' % (sorted(s_), o2[0], str(o2[1])[:100] if o2[0] != 'ok' else 'tree',
                                                       o1[0]), replay={'text': text, 'subset': sorted(s_)},
                          breakage=str(kind))
    # inclusion pairs
    for a, b in itertools.permutations(list(outcomes), 2):
        if not a < b:
            continue
        if 'NetworkAddress' in text and 'supportSmiV1Keywords' in (b - a):
            res.count('pairs_exempt_reserved_word')
            continue        # the larger dialect reserves a word this text uses
        res.count('inclusion_pairs')
        oa, ob = outcomes[a], outcomes[b]
        if oa[0] == 'ok':
            if ob[0] != 'ok':
                res.violation('superset_rejects', 'accepted under %s but rejected under its superset %s: %s' % (
                    sorted(a), sorted(b), ob[1]), replay={'text': text, 'small': sorted(a), 'big': sorted(b)},
                    breakage=str(kind), added=','.join(sorted(b - a))[:80])
            elif oa[1] != ob[1]:
                res.violation('superset_tree_differs', 'tree under %s differs from the tree under %s at %s' % (
                    sorted(b), sorted(a), c02_ast.first_diff(ob[1], oa[1])),
                    replay={'text': text, 'small': sorted(a), 'big': sorted(b)}, breakage=str(kind))
    # breakage semantics
    if kind:
        res.count('breakages_planted')
        res.cell('breakage:' + kind)
        for s, oc in outcomes.items():
            if set(must) <= s:
                if oc[0] != 'ok':
                    res.violation('relaxation_rejects_its_breakage', '%s at %s rejected under %s: %s' % (
                        kind, site, sorted(s), oc[1]), replay={'text': text, 'subset': sorted(s)}, breakage=kind)
                else:
                    res.count('breakage_accepted_under_option')
                    if oc[1] != expected:
                        res.violation('breakage_tree', '%s at %s under %s: tree differs from the corrected text\'s '
                                      'tree at %s' % (kind, site, sorted(s), c02_ast.first_diff(oc[1], expected)),
                                      replay={'text': text, 'subset': sorted(s)}, breakage=kind)
            else:
                res.cell('strict:%s:%s' % (kind, oc[0]))
    else:
        for s, oc in outcomes.items():
            if oc[0] != 'ok':
                res.violation('wellformed_rejected', 'well-formed text rejected under %s: %s' % (sorted(s), oc[1]),
                              replay={'text': text, 'subset': sorted(s)})
            elif oc[1] != expected:
                res.violation('wellformed_tree', 'under %s: %s' % (sorted(s), c02_ast.first_diff(oc[1], expected)),
                              replay={'text': text, 'subset': sorted(s)})
    # unknown relaxations are refused with the package error
    if idx % 20 == 0:
        from pysmi.parser.smi import parserFactory
        from pysmi.lexer.smi import lexerFactory
        for fac in (parserFactory, lexerFactory):
            bogus = rng.choice(['bogus', 'supportSmiV1keywords', 'commaAtTheEndOfImports', 'nocells', 'x'])
            res.count('unknown_option_checks')
            try:
                fac(**{bogus: True})
                res.violation('unknown_option_accepted', '%s(%s=True) did not raise' % (fac.__name__, bogus),
                              replay={'option': bogus})
            except error.PySmiError:
                pass
            except Exception as exc:
                res.violation('unknown_option_wrong_error', '%s(%s=True) raised %r' % (fac.__name__, bogus, exc),
                              replay={'option': bogus})
    res.evals = len(outcomes)
    res.sig = harness.stable_hash([text, sorted(sorted(s) for s in outcomes)])
    res.nontrivial = bool(kind) or len(outcomes) >= 2
    if idx % 600 == 1:
        res.sample = {'breakage': kind, 'site': site, 'subsets': [sorted(s) for s in outcomes][:6],
                      'text_head': text[:500]}
