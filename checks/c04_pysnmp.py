"""C04 - pysnmp output is valid Python that loads and agrees with the JSON backend."""
import keyword
import re

from vlib import gen, harness, pipeline, compiled, mib
from vlib.mib import pyname
from vlib.layout import Layout

ID = 'C04'
LEVEL = 'exploration'
RULE = ('module sets with cross-module imports of every importable kind (OID nodes, columns used as '
        'foreign indices, augmented rows, plain types and textual conventions, group / notification '
        'members), names with hyphens and mixed case, rich syntaxes and texts; both back ends compile '
        'the same set; the pysnmp text is compiled, executed against a recording builder (imports '
        'between generated modules are resolved against what the exporting module really exported) '
        'and every JSON entry is compared with the exported pysnmp object (presence under the MIB name, '
        'OID, kind, base type, access); every 4th set is also written to disk and loaded together by a '
        'real pysnmp MibBuilder; a stress profile (every 6th case) uses Python keywords as identifiers; '
        'non-trivial = >=2 generated modules with an import between them; distinct = structural '
        'signature of imports and kinds')
ASSUMPTIONS = ['pysnmp 7.1.29 is the MIB builder; its own compiled SNMPv2-* modules stand in for the '
               'stubbed base MIBs', 'kind / base-type correspondence tables live in the harness']

KIND_CLASS = {'scalar': 'MibScalar', 'table': 'MibTable', 'row': 'MibTableRow', 'column': 'MibTableColumn'}
CLASS_CLASS = {'objectidentity': 'ObjectIdentity', 'notificationtype': 'NotificationType',
               'objectgroup': 'ObjectGroup', 'notificationgroup': 'NotificationGroup',
               'modulecompliance': 'ModuleCompliance', 'agentcapabilities': 'AgentCapabilities',
               'moduleidentity': 'ModuleIdentity'}
KEYWORDS = ['class', 'def', 'for', 'if', 'in', 'is', 'not', 'or', 'and', 'as', 'from', 'global', 'import',
            'lambda', 'pass', 'return', 'try', 'while', 'with', 'yield', 'del', 'else', 'raise', 'async']


def plan(tier, seed):
    if tier == 'quick':
        return {'n': 1200, 'budget_s': 45, 'min_evals': 500,
                'floors': {'modules_executed': 1500, 'entries_compared': 25000, 'cross_imports': 2000,
                           'sets_loaded_together': 100, 'import_calls_recorded': 20000}}
    return {'n': 24000, 'budget_s': 600, 'min_evals': 10000,
            'floors': {'modules_executed': 30000, 'entries_compared': 500000, 'cross_imports': 40000,
                       'sets_loaded_together': 2500, 'import_calls_recorded': 400000}}


def hostile_text(rng):
    """any legal text content: line breaks of every kind, backslashes, apostrophes, non-ASCII"""
    from checks import c15_texts
    return c15_texts.make_text(rng)


def make_set(rng, tier, stress):
    prof = gen.profile(modules=(2, 4), nodes=(1, 4), scalars=(1, 4), tables=(0, 2), types=(0, 3),
                       notifs=(0, 2), groups=(0, 2), syntax='rich',
                       features=['traps', 'compliance', 'capabilities', 'types', 'smi_tc', 'defval',
                                 'defval_zero', 'defval_bits', 'defval_oid', 'defval_bin_octets',
                                 'defval_empty_string', 'defval_empty_hex', 'split_imports', 'odd_labels'],
                       text_fn=(hostile_text if rng.random() < 0.25 else None),
                       p_hyphen=rng.choice([0.0, 0.3, 0.6]), p_cross_parent=0.7, p_foreign_index=0.4,
                       p_foreign_member=0.4, p_chain=0.6)
    g = gen.SetGen(rng, prof)
    if stress:
        # Python keywords as identifiers: rename a few freshly named symbols
        orig = g.namer.lower
        pool = list(KEYWORDS)
        rng.shuffle(pool)

        def lower(prefix, pool=pool, orig=orig):
            if pool and rng.random() < 0.08:
                kw = pool.pop()
                g.count('keyword_symbols')
                return kw
            return orig(prefix)
        g.namer.lower = lower
    return g.build()


def run_case(idx, rng, tier, res):
    stress = idx % 6 == 5
    g = make_set(rng, tier, stress)
    if rng.random() < 0.1:
        # "bug in some IETF MIBs": an application type used without being imported - the compiler supplies
        # these imports itself, the module still has to load
        for m in g.modules:
            for gi, (frm, syms) in enumerate(m.imports):
                if frm == 'SNMPv2-SMI':
                    drop = [x for x in syms if x in ('Counter32', 'Gauge32', 'TimeTicks', 'Unsigned32', 'IpAddress',
                                                     'Counter64', 'Integer32')]
                    if drop and len(syms) > len(drop):
                        victim = rng.choice(drop)
                        m.imports[gi] = (frm, [x for x in syms if x != victim])
                        res.count('base_types_used_without_import')
                        break
    texts = g.texts((lambda: Layout(rng, 'noisy')) if rng.random() < 0.2 else None)
    gt = rng.random() < 0.5
    c = compiled.Compiled(g, texts, load_texts=gt, genTexts=gt)
    replay = {'texts': texts, 'genTexts': gt, 'profile': 'stress' if stress else 'clean'}
    kw_mods = set(m.name for m in g.modules if any(keyword.iskeyword(d.name) for d in m.decls))
    kw_reach = set(kw_mods)
    changed = True
    while changed:
        changed = False
        for m in g.modules:
            if m.name not in kw_reach and any(mod in kw_reach for mod, syms in m.imports):
                kw_reach.add(m.name)
                changed = True
    for b, n, st, err in c.status_problems():
        cause = 'other'
        # mechanism, not message wording: the failing module defines a keyword-named symbol or reaches
        # one through its imports (OID parents, DEFVAL labels, list members)
        if n in kw_reach:
            cause = 'keyword_prefix_mismatch'
        elif st == 'unprocessed':
            cause = 'blocked_by_other_module'
        if cause == 'blocked_by_other_module':
            res.count('blocked_modules')
            continue
        res.violation('not_compiled', '%s: %s is %s (%s)' % (b, n, st, err), replay=replay, backend=b, cause=cause)
    nimports = 0
    for m in g.modules:
        nimports += sum(1 for mod, syms in m.imports if mod in c.names)
    res.count('cross_imports', nimports)
    res.nontrivial = len(g.modules) >= 2 and nimports > 0
    if c.rb is not None:
        res.count('import_calls_recorded', len(c.rb.import_calls))
        res.count('export_calls_recorded', len(c.rb.export_calls))
    for m in g.modules:
        pytext = getattr(c, 'pytexts', {}).get(m.name)
        if pytext is None:
            continue
        try:
            compile(pytext, m.name, 'exec')
        except SyntaxError as exc:
            res.violation('python_syntax', '%s: generated text is not valid Python: %s' % (m.name, exc),
                          replay=replay, keyword=m.name in kw_mods)
            continue
        err = c.exec_error(m.name)
        if isinstance(err, pipeline.DependencyFailed):
            res.count('exec_cascade')
            continue
        if err is not None:
            res.violation('pysnmp_exec', '%s: executing the generated module raised %r' % (m.name, err),
                          replay=replay, exc=type(err).__name__, keyword=m.name in kw_mods)
            continue
        res.count('modules_executed')
        doc = c.docs.get(m.name)
        if doc is None:
            continue
        exports = c.rb.exports.get(m.name, {})
        ns = c.ns(m.name)
        origname = dict((pyname(d.name), d.name) for d in m.decls)
        for key, e in doc.items():
            if key in ('imports', 'meta') or not isinstance(e, dict):
                continue
            cls = e.get('class')
            res.count('entries_compared')
            res.cell('class:%s' % cls)
            on = origname.get(key, key)

            def V(mon, what, got, want, **kw):
                res.violation(mon, '%s::%s (%s): %s is %r, JSON backend says %r' % (m.name, on, cls, what, got, want),
                              replay=replay, jclass=str(cls), hyphen='-' in on, **kw)
            obj = exports.get(on)
            if obj is None:
                alt = [k for k in exports if pyname(k) == key]
                V('not_exported', 'exported names', sorted(alt) or 'none', on)
                obj = ns.get(key)
                if obj is None:
                    continue
            if 'oid' in e:
                want = tuple(int(x) for x in e['oid'].split('.'))
                try:
                    got = tuple(obj.getName())
                except Exception as exc:
                    got = repr(exc)
                if got != want:
                    V('oid_differs', 'OID', got, want)
            if cls == 'objecttype':
                want = KIND_CLASS.get(e.get('nodetype'))
                if type(obj).__name__ != want:
                    V('kind_differs', 'object class', type(obj).__name__, want)
                if e.get('nodetype') in ('scalar', 'column'):
                    try:
                        if obj.getMaxAccess() != e.get('maxaccess'):
                            V('access_differs', 'max-access', obj.getMaxAccess(), e.get('maxaccess'))
                    except Exception as exc:
                        V('access_differs', 'max-access', repr(exc), e.get('maxaccess'))
                    jt = (e.get('syntax') or {}).get('type')
                    if jt:
                        want_cls = mib.PYSNMP_CLASS.get(jt, jt)
                        if jt == 'Bits':
                            want_cls = 'Bits'
                        try:
                            mro = [k.__name__ for k in type(obj.getSyntax()).__mro__]
                        except Exception as exc:
                            mro = [repr(exc)]
                        if want_cls not in mro and type(obj.getSyntax()).__name__ != want_cls:
                            V('basetype_differs', 'syntax class chain', mro[:5], want_cls)
            elif cls in CLASS_CLASS:
                if type(obj).__name__ != CLASS_CLASS[cls]:
                    V('kind_differs', 'object class', type(obj).__name__, CLASS_CLASS[cls])
            elif cls in ('type', 'textualconvention'):
                if not isinstance(obj, type):
                    V('kind_differs', 'exported object', type(obj).__name__, 'a class')
                else:
                    mro = [k.__name__ for k in obj.__mro__]
                    if cls == 'textualconvention' and 'TextualConvention' not in mro:
                        V('kind_differs', 'class chain', mro[:5], 'TextualConvention')
                    jt = (e.get('type') or {}).get('type')
                    want_cls = mib.PYSNMP_CLASS.get(jt, jt)
                    if jt and want_cls not in mro:
                        V('basetype_differs', 'class chain', mro[:6], want_cls)
    # load together with a real MibBuilder
    if idx % 4 == 0 and getattr(c, 'pytexts', None) and len(c.pytexts) == len(g.modules) and not kw_mods:
        try:
            b = pipeline.load_together(c.pytexts, load_texts=gt)
            res.count('sets_loaded_together')
            for m in g.modules:
                if m.name not in b.mibSymbols:
                    res.violation('load_together_missing', '%s not among the loaded modules' % m.name, replay=replay)
        except Exception as exc:
            res.violation('load_together', 'a real MibBuilder could not load the compiled set: %s: %s' % (
                type(exc).__name__, str(exc)[:300]), replay=replay, exc=type(exc).__name__)
    res.sig = harness.stable_hash([g.signature(), [[mod for mod, s in m.imports if mod in c.names] for m in g.modules]])
    if idx % 400 == 0:
        m = g.modules[-1]
        res.sample = {'modules': c.names, 'imports_of_last': m.imports,
                      'exports_of_last': sorted((c.rb.exports.get(m.name, {}) if c.rb else {}))[:30]}
