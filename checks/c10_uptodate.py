"""C10 - up-to-date modules are not regenerated; rebuild / noDeps / stubs; file searchers."""
import os
import shutil
import struct
import sys
import tempfile
import importlib.util

from vlib import orch, harness, env

ID = 'C10'
LEVEL = 'exploration'
RULE = ('part A: orchestration scenarios over searcher doubles (1-3 searchers answering fresh / '
        'absent / error per module, age-based or stub-like) x rebuild x noDeps, boundary trace of the '
        'real compile() checked for consultation order, untouched status, absence of genCode/putData; '
        'part B: the real AnyFileSearcher / PyFileSearcher / PyPackageSearcher / StubSearcher over a '
        'generated temp directory: grid of source mtime vs destination mtime (t-1,t,t+1, sub-second, '
        '2^31 boundary) x destination present / absent / directory of that name / other extension / '
        'other case / stale first + fresh second extension, judged by a reference predicate over the '
        'directory listing; non-trivial = a fresh answer or mtime equality involved; distinct = '
        'hash(scenario or cell)')
ASSUMPTIONS = ['age-based searcher doubles honour rebuild exactly like the real searchers do',
               'filesystem mtimes are set with os.utime (integer seconds as the searchers read them)']


def plan(tier, seed):
    if tier == 'quick':
        return {'n': 6000, 'budget_s': 40, 'min_evals': 2500,
                'floors': {'searcher_events': 5000, 'fresh_answers': 500, 'fs_cells': 1200,
                           'fs_not_modified': 300, 'fs_not_found': 300}}
    return {'n': 120000, 'budget_s': 600, 'min_evals': 50000,
            'floors': {'searcher_events': 100000, 'fresh_answers': 10000, 'fs_cells': 20000,
                       'fs_not_modified': 5000, 'fs_not_found': 5000}}


# ------------------------------------------------------------------------------ part A

def build_orch(rng, tier):
    if rng.random() < 0.5:
        gname = rng.choice(sorted(orch.GRAPHS))
        mods, g = orch.GRAPHS[gname]
        g = dict((k, list(v)) for k, v in g.items())
    else:
        mods, g = orch.random_graph(rng, nmax=5)
    requested = [m for m in mods if rng.random() < 0.4] or [mods[0]]
    scn = orch.new_scenario(mods, g, requested)
    for _ in range(rng.randint(1, 3)):
        scn['searchers'].append({
            'table': dict((m, rng.choice(['fresh', 'absent', 'absent', 'error'])) for m in mods),
            'stub': rng.random() < 0.3})
    for k in ('rebuild', 'noDeps'):
        if rng.random() < 0.4:
            scn['options'][k] = True
    # a requested module may live in a file named unlike the module (mibdump /path/vendor.mib)
    imported = set(d for v in g.values() for d in v)
    for r in list(scn['requested']):
        if r not in imported and rng.random() < 0.3:
            alias = r.lower().replace('-mib', '-file')
            scn['files'][alias] = [r]
            scn['requested'][scn['requested'].index(r)] = alias
    if rng.random() < 0.15:
        scn['options']['ignoreErrors'] = True
    if rng.random() < 0.15:
        # a failing module that can be borrowed: the borrowed copy passes the searchers again
        m = rng.choice(mods)
        scn['sources'][0][m] = rng.choice(['synerr', 'absent'])
        scn['borrowers'].append({'genTexts': False, 'kind': 'any', 'table': {m: 'BORROWED %s\n' % m}})
    return scn


def case_orch(idx, rng, tier, res):
    scn = build_orch(rng, tier)
    run = orch.execute(scn)

    def V(monitor, detail, **features):
        res.violation(monitor, detail, replay=scn, **features)

    orch.check_searchers(scn, run, V)
    tr = run['trace']
    evs = tr.select('searcher', 'fileExists', 'raise') + tr.select('searcher', 'fileExists', 'ret')
    res.count('searcher_events', len(evs))
    nfresh = len([e for e in evs if e.get('answer') == 'fresh'])
    res.count('fresh_answers', nfresh)
    res.count('orch_scenarios')
    if scn['files']:
        res.count('alias_file_scenarios')
    res.cell('A:rebuild=%s,noDeps=%s' % (bool(scn['options'].get('rebuild')), bool(scn['options'].get('noDeps'))),
             'A:searchers=%d' % len(scn['searchers']))
    res.sig = harness.stable_hash(scn)
    res.nontrivial = nfresh > 0
    if idx % 3000 == 0:
        res.sample = {'part': 'A', 'scenario': scn,
                      'result': dict((k, str(v)) for k, v in run.get('result', {}).items()),
                      'searcher_events': [(e['comp'], e['name'], e.get('answer')) for e in evs][:20]}


# ------------------------------------------------------------------------------ part B

T0 = 1500000000
MTIMES = [T0 - 1, T0, T0 + 1, 2 ** 31 - 1, 2 ** 31, 1]


def reference(listing, name, exts, src_mtime):
    """'notmodified' iff a regular file named exactly name+ext exists with mtime >= source's."""
    for ext in exts:
        ent = listing.get(name + ext)
        if ent and ent[0] == 'file' and ent[1] >= src_mtime:
            return 'notmodified'
    return 'notfound'


def case_fs(idx, rng, tier, res):
    from pysmi.searcher import AnyFileSearcher, PyFileSearcher, PyPackageSearcher, StubSearcher
    from pysmi import error
    kind = rng.choice(['any', 'any', 'py', 'py', 'pkg', 'stub'])
    name = rng.choice(['FOO-MIB', 'Bar-Mib', 'x', 'IF-MIB'])
    d = tempfile.mkdtemp(prefix='verif-c10-', dir=env.scratch_root())
    try:
        src_mtime = rng.choice(MTIMES)
        exts_any = rng.choice([['.json'], ['.json', '.js'], ['', '.txt'], ['.a', '.b', '.c']])
        exts = {'any': exts_any, 'py': ['.py'], 'pkg': ['.py']}.get(kind, [])
        listing = {}
        # populate
        shapes = rng.sample(['exact', 'dir', 'otherext', 'othercase', 'second', 'prefix', 'none'] +
                            (['pyc'] if kind in ('py', 'pkg') else []), rng.randint(1, 3))
        def mk(fn, mtime, as_dir=False):
            p = os.path.join(d, fn)
            if os.path.exists(p):
                return
            if as_dir:
                os.mkdir(p)
            else:
                with open(p, 'w') as f:
                    f.write('x')
            os.utime(p, (mtime, mtime))
            listing[fn] = ('dir' if as_dir else 'file', mtime)
        pkgname = None
        if kind == 'pkg':
            pkgname = 'verifpkg_%d_%d' % (os.getpid(), idx)
            os.mkdir(os.path.join(d, pkgname))
            root = d
            d_pkg = os.path.join(d, pkgname)
            with open(os.path.join(d_pkg, '__init__.py'), 'w') as f:
                f.write('')
            if rng.random() < 0.5:
                # a nested package: the searcher is bound to outer.inner, the files live in inner; the
                # enclosing package may hold a same-named file that must not be looked at
                outer_dir = d_pkg
                d_pkg = os.path.join(d_pkg, 'inner')
                os.mkdir(d_pkg)
                with open(os.path.join(d_pkg, '__init__.py'), 'w') as f:
                    f.write('')
                if rng.random() < 0.6:
                    decoy = os.path.join(outer_dir, name + '.py')
                    with open(decoy, 'w') as f:
                        f.write('x')
                    t_ = src_mtime + rng.choice([-1000, 1000])
                    os.utime(decoy, (max(0, t_), max(0, t_)))
                pkgname += '.inner'
                res.count('nested_package_searchers')
            d_files = d_pkg
        else:
            d_files = d
        real_d = d
        d = d_files
        for sh in sorted(shapes, key=lambda x: x == 'pyc'):     # byte code is compiled last
            delta = rng.choice([-1, 0, 1, -1000, 1000])
            mt = max(0, src_mtime + delta)
            if sh == 'pyc' and listing.get(name + '.py', ('', 0))[0] == 'file':
                mt = listing[name + '.py'][1]       # byte code carries the stamp of its module
            if sh == 'exact' and exts:
                mk(name + rng.choice(exts), mt)
            elif sh == 'dir' and exts:
                mk(name + exts[0], mt, as_dir=True)
            elif sh == 'otherext':
                mk(name + '.zzz', mt)
            elif sh == 'othercase':
                alt = name.swapcase()
                if alt != name and exts:
                    mk(alt + exts[0], mt)
            elif sh == 'second' and len(exts) > 1:
                mk(name + exts[0], max(0, src_mtime - 5))
                mk(name + exts[1], src_mtime + rng.choice([0, 3]))
            elif sh == 'pyc' and kind in ('py', 'pkg'):
                # a byte-code file next to (or instead of) the module, stamped like the module itself
                import py_compile
                srcf = os.path.join(real_d, 'pyc-source-%d.py' % idx)
                with open(srcf, 'w') as f:
                    f.write('x = 1\n')
                os.utime(srcf, (mt, mt))
                pmode = rng.choice(['TIMESTAMP', 'TIMESTAMP', 'CHECKED_HASH', 'UNCHECKED_HASH'])
                py_compile.compile(srcf, cfile=os.path.join(d, name + '.pyc'), doraise=True,
                                   invalidation_mode=getattr(py_compile.PycInvalidationMode, pmode))
                os.remove(srcf)
                os.utime(os.path.join(d, name + '.pyc'), (mt, mt))
                if pmode == 'TIMESTAMP':
                    listing[name + '.pyc'] = ('file', mt)
                else:
                    # hash-based byte code (PEP 552) records no time: it says nothing about age, the
                    # module file next to it decides
                    res.count('hash_based_bytecode_files')
                if rng.random() < 0.6:
                    mk(name + '.py', mt)
                res.count('bytecode_files_next_to_modules')
            elif sh == 'prefix' and exts:
                mk(name + 'X' + exts[0], mt)
                mk('X' + name + exts[0], mt)
        d = real_d
        if kind == 'any':
            s = AnyFileSearcher(d).setOptions(exts=exts)
        elif kind == 'py':
            s = PyFileSearcher(d)
        elif kind == 'pkg':
            sys.path.insert(0, d)
            s = PyPackageSearcher(pkgname)
        else:
            stubs = rng.sample(['FOO-MIB', 'IF-MIB', 'Bar-Mib', 'Q'], 2)
            s = StubSearcher(*stubs)
        rebuild = rng.random() < 0.2
        try:
            try:
                r = s.fileExists(name, src_mtime, rebuild=rebuild)
                got = 'returned'
            except error.PySmiFileNotModifiedError:
                got = 'notmodified'
            except error.PySmiFileNotFoundError:
                got = 'notfound'
            except Exception as exc:
                got = 'other:%s' % type(exc).__name__
        finally:
            if kind == 'pkg':
                sys.path.remove(d)
                sys.modules.pop(pkgname, None)
                sys.modules.pop(pkgname.split('.')[0], None)
        if kind == 'stub':
            want = 'notmodified' if name in stubs else 'notfound'
        elif rebuild:
            want = 'returned'
        else:
            want = reference(listing, name, exts + (['.pyc'] if 'pyc' in shapes else []), src_mtime)
        cell = {'searcher': kind, 'name': name, 'src_mtime': src_mtime, 'exts': exts,
                'listing': listing, 'rebuild': rebuild}
        if got != want:
            res.violation('searcher_answer', '%s searcher answered %s, reference predicate says %s for %r' % (
                kind, got, want, cell), replay=cell, searcher=kind, got=got, want=want)
        res.count('fs_cells')
        res.count('fs_' + {'notmodified': 'not_modified', 'notfound': 'not_found'}.get(got, got))
        eq = any(v[1] == src_mtime for v in listing.values())
        res.cell('B:%s:%s' % (kind, want), 'B:shapes:' + '+'.join(sorted(shapes)))
        res.sig = harness.stable_hash(cell)
        res.nontrivial = eq or want == 'notmodified'
        if idx % 3001 == 1:
            res.sample = dict(cell, part='B', answer=got)
    finally:
        shutil.rmtree(real_d if 'real_d' in dir() else d, ignore_errors=True)


def run_case(idx, rng, tier, res):
    if idx % 2 == 0:
        case_orch(idx, rng, tier, res)
    else:
        case_fs(idx, rng, tier, res)
