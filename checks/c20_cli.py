"""C20 - command-line tools report and leave on disk exactly what happened."""
import itertools
import os
import re
import shutil
import subprocess
import tempfile
import time

from vlib import harness, env, orch, faults, pipeline

ID = 'C20'
LEVEL = 'exploration'
RULE = ('mibdump.py is run as a subprocess over generated on-disk module sets (2-6 tiny modules; healthy '
        '/ missing / broken members; alias file names) for the json / pysnmp / null formats and '
        'combinations of --rebuild --no-dependencies --ignore-errors --dry-run --no-mib-writes '
        '--generate-mib-texts --build-index --mib-stub --mib-borrower; its exit code, its own report '
        '(parsed) and the destination directory (snapshots; inotify stream for dry runs, with a '
        'positive control) are judged against the construction of the set; usage errors must exit 64; '
        'mibcopy.py is run for every permutation of 2-4 source arguments holding several copies of '
        'the same modules with different latest REVISIONs under arbitrary file names: the destination '
        'must hold the maximal-revision copy under the module name for every order; non-trivial = a '
        'run with >=1 missing/failed member or a permutation set with >=2 copies of one module; '
        'distinct = hash(case)')
ASSUMPTIONS = ['network sources / borrowers are never configured (explicit local --mib-source and '
               '--mib-borrower); HOME is redirected', 'report parsing follows the fixed category '
               'headings the tool prints']

MIBDUMP = os.path.join(env.REPO, 'scripts', 'mibdump.py')
MIBCOPY = os.path.join(env.REPO, 'scripts', 'mibcopy.py')
CATS = [('created', r'(?:Would be c|C)reated/updated MIBs: (.*)'),
        ('borrowed', r'Pre-compiled MIBs (?:Would be )?borrowed: (.*)'),
        ('uptodate', r'Up to date MIBs: (.*)'), ('missing', r'Missing source MIBs: (.*)'),
        ('ignored', r'Ignored MIBs: (.*)'), ('failed', r'Failed MIBs: (.*)')]


def plan(tier, seed):
    p = _plan(tier)
    if not HAVE_INOTIFY:        # the snapshot oracle still decides; the event stream cannot be required
        p['floors'].pop('dryrun_inotify_windows', None)
        p['floors'].pop('inotify_positive_control_events', None)
    return p


def _plan(tier):
    if tier == 'quick':
        return {'n': 360, 'budget_s': 50, 'min_evals': 300,
                'floors': {'mibdump_runs': 180, 'mibcopy_runs': 120, 'dryrun_inotify_windows': 20,
                           'inotify_positive_control_events': 5, 'usage_runs': 20}}
    return {'n': 8000, 'budget_s': 700, 'min_evals': 6000,
            'floors': {'mibdump_runs': 4000, 'mibcopy_runs': 2500, 'dryrun_inotify_windows': 400,
                       'inotify_positive_control_events': 100, 'usage_runs': 300}}


def run_tool(script, args, home, timeout=120):
    e = env.child_env()
    e['HOME'] = home
    e['PYTHONPATH'] = env.REPO
    p = subprocess.run([env.PYTHON, script] + args, env=e, stdout=subprocess.PIPE,
                       stderr=subprocess.PIPE, timeout=timeout, cwd=home)
    return p.returncode, p.stderr.decode('utf-8', 'replace'), p.stdout.decode('utf-8', 'replace')


def parse_report(err):
    rep = {}
    for cat, rx in CATS:
        m = re.search('^' + rx + r'\r?$', err, re.M)
        if not m:
            rep[cat] = None
            continue
        body = m.group(1).strip().rstrip('\r')
        names = []
        if body:
            # entries are "NAME" or "NAME (alias)" / "NAME (error text, maybe with commas)"
            depth = 0
            cur = ''
            for ch in body:
                if ch == '(':
                    depth += 1
                elif ch == ')':
                    depth = max(0, depth - 1)
                if ch == ',' and depth == 0:
                    names.append(cur.strip())
                    cur = ''
                else:
                    cur += ch
            if cur.strip():
                names.append(cur.strip())
        rep[cat] = [n.split(' ')[0] for n in names]
    return rep


HAVE_INOTIFY = bool(shutil.which('inotifywait'))


class Inotify(object):
    def __init__(self, root):
        self.root = root
        self.proc = None
        self.events = []
        self.ready = False

    def __enter__(self):
        if not HAVE_INOTIFY:
            return self         # snapshots alone decide; counted as not ready
        self.proc = subprocess.Popen(
            ['inotifywait', '-m', '-r', '-q', '-e', 'create,modify,delete,moved_to,moved_from,attrib,close_write',
             '--format', '%e %w%f', self.root], stdout=subprocess.PIPE, stderr=subprocess.PIPE)
        # -q suppresses "Watches established"; give the watches a moment, then prove with a probe
        probe = os.path.join(self.root, '.probe')
        t0 = time.time()
        self.ready = False
        import select
        while time.time() - t0 < 5:
            with open(probe, 'w') as f:
                f.write('x')
            r, _, _ = select.select([self.proc.stdout], [], [], 0.05)
            if r:
                self.ready = True
                break
        os.unlink(probe)
        time.sleep(0.05)
        return self

    def __exit__(self, *exc):
        if self.proc is None:
            return False
        time.sleep(0.05)
        self.proc.terminate()
        try:
            out, _ = self.proc.communicate(timeout=5)
        except subprocess.TimeoutExpired:
            self.proc.kill()
            out, _ = self.proc.communicate()
        self.events = [l for l in out.decode('utf-8', 'replace').splitlines()
                       if l and not l.endswith('/.probe')]
        return False


# ------------------------------------------------------------------------------ mibdump

def case_mibdump(idx, rng, tier, res):
    base = tempfile.mkdtemp(prefix='verif-c20-', dir=env.scratch_root())
    try:
        src = os.path.join(base, 'src')
        dst = os.path.join(base, 'dst')
        bor = os.path.join(base, 'bor')
        home = os.path.join(base, 'home')
        for d in (src, dst, bor, home):
            os.makedirs(d)
        gname = rng.choice(['chain2', 'chain3', 'star', 'diamond', 'two_roots', 'single', 'cycle2'])
        mods, g = orch.GRAPHS[gname]
        fmt = rng.choice(['json', 'json', 'pysnmp', 'null'])
        ext = {'json': '.json', 'pysnmp': '.py', 'null': None}[fmt]
        health = {}
        for m in mods:
            r = rng.random()
            health[m] = 'ok' if r < 0.7 else ('absent' if r < 0.82 else rng.choice(['synerr', 'unresolved', 'untyped', 'truncated', 'macro_open', 'oidloop']))
            if health[m] == 'oidloop' and fmt == 'null':
                health[m] = 'unresolved'    # the null generator resolves no OIDs: nothing to detect there
        requested = [mods[0]] if gname != 'two_roots' else mods[:2]
        # every ninth run: a requested module that cannot be compiled, dependencies skipped, a borrower at hand
        forced = idx % 9 == 4 and ext is not None
        if forced:
            health[requested[0]] = rng.choice(['synerr', 'untyped', 'truncated', 'absent'])
            res.count('requested_broken_nodeps_borrowable_runs')
        alias = None
        for b in orch.BASE:
            with open(os.path.join(src, b), 'w') as f:
                f.write(pipeline.fixtures()[b])
        # SMIv1 style imports: every symbol taken from these modules is rewritten to its SMIv2 home, the
        # modules are named in IMPORTS all the same: present they are up to date (stubs), absent missing
        if rng.random() < 0.3:
            g = dict((k, list(g.get(k, []))) for k in mods)
            for m in mods:
                if health[m] in ('ok', 'oidloop') and rng.random() < 0.5:
                    for b in rng.sample(sorted(orch.V1_BASE), rng.randint(1, 2)):
                        if b not in g[m]:
                            g[m].append(b)
                        if b not in health:
                            health[b] = 'ok' if rng.random() < 0.6 else 'absent'
                            if health[b] == 'ok':
                                with open(os.path.join(src, b), 'w') as f:
                                    f.write(orch.base_text(b))
            res.count('runs_with_smiv1_style_imports')
        for m in mods:
            if health[m] == 'absent':
                continue
            fname = m + rng.choice(['', '.txt', '.mib'])
            if m in requested and health[m] == 'ok' and alias is None and rng.random() < 0.2 and \
                    not any(m in v for v in g.values()):
                alias = (m, 'file-of-' + m.lower())
                fname = alias[1] + '.txt'
            with open(os.path.join(src, fname), 'w') as f:
                f.write(orch.module_text(m, g.get(m, []), 'disk', health[m]))
        opts = [o for o in ('--rebuild', '--no-dependencies', '--ignore-errors', '--dry-run',
                            '--no-mib-writes', '--generate-mib-texts', '--no-python-compile')
                if rng.random() < 0.22]
        # an index document exists for the JSON format only; asking for it with another format is legal
        if (fmt == 'json' or rng.random() < 0.4) and rng.random() < (0.5 if '--dry-run' in opts else 0.25):
            opts.append('--build-index')
            if '--dry-run' in opts:
                res.count('dryrun_with_build_index')
        if rng.random() < 0.1:
            opts.append('--debug=' + rng.choice(['all', 'compiler', 'reader,searcher,writer', 'parser,codegen,borrower']))
            res.count('runs_with_debug_logging')
        if forced and '--no-dependencies' not in opts:
            opts.append('--no-dependencies')
        borrowable = []
        bor_text = {}       # module -> text of the copy in the first borrower (command-line order) holding it
        bor2 = os.path.join(base, 'a-second-borrower')      # sorts before 'bor': order given != sorted order
        os.makedirs(bor2)
        two_borrowers = rng.random() < 0.5
        if ext and (forced or rng.random() < 0.4):
            for m in mods:
                for bi, bdir in enumerate([bor, bor2] if two_borrowers else [bor]):
                    if rng.random() < 0.5 or (forced and m == requested[0] and bi == 0):
                        t_ = ('BORROWED copy of %s at borrower %d\n' if fmt == 'json' else '# borrowed %s at borrower %d\n') % (m, bi)
                        with open(os.path.join(bdir, m + ext), 'w') as f:
                            f.write(t_)
                        bor_text.setdefault(m, t_)
                        if m not in borrowable:
                            borrowable.append(m)
        # stale / fresh pre-existing destination files
        pre = {}
        if ext and rng.random() < 0.3:
            for m in mods:
                if rng.random() < 0.4:
                    p = os.path.join(dst, m + ext)
                    with open(p, 'w') as f:
                        f.write('previous %s\n' % m)
                    age = rng.choice([-10 ** 6, 10 ** 6])
                    t = time.time() + age
                    os.utime(p, (t, t))
                    pre[m] = 'fresh' if age > 0 else 'stale'
        # byte-compilation that cannot succeed: __pycache__ is a regular file
        pyc_block = fmt == 'pysnmp' and '--no-python-compile' not in opts and rng.random() < 0.45
        if pyc_block:
            with open(os.path.join(dst, '__pycache__'), 'w') as f:
                f.write('not a directory\n')
            res.count('pycache_blocked_runs')
        src_args = ['--mib-source=' + src]
        if rng.random() < 0.25:
            src0 = os.path.join(base, 'src0')
            os.makedirs(src0)
            healthy = [m for m in mods if health[m] == 'ok']
            if healthy:
                m0 = rng.choice(healthy)
                with open(os.path.join(src0, m0 + '.txt'), 'w') as f:
                    f.write(orch.module_text(m0, g.get(m0, []), 'disk0', rng.choice(['synerr', 'lexerr', 'truncated'])))
                src_args = ['--mib-source=' + src0] + src_args
                res.count('broken_copy_in_earlier_source')
        args = src_args + ['--destination-directory=' + dst, '--destination-format=' + fmt,
                '--mib-borrower=' + bor] + (['--mib-borrower=' + bor2] if two_borrowers else []) + \
            ['--mib-searcher=' + dst] + opts
        names = [alias[1] if alias and alias[0] == r else r for r in requested]
        before = faults.snapshot(dst)
        # the index document is the one thing --no-mib-writes still stores; a dry run stores nothing at all
        watch = '--dry-run' in opts or ('--no-mib-writes' in opts and '--build-index' not in opts)
        if watch:
            with Inotify(dst) as ino:
                rc, err, out = run_tool(MIBDUMP, args + names, home)
            if ino.ready:
                res.count('dryrun_inotify_windows')
            if not ino.ready:
                res.count('inotify_not_ready')
        else:
            rc, err, out = run_tool(MIBDUMP, args + names, home)
        after = faults.snapshot(dst)
        res.count('mibdump_runs')
        cell = {'graph': gname, 'format': fmt, 'health': health, 'options': opts, 'requested': names,
                'pycache_is_a_file': pyc_block,
                'borrowable': borrowable, 'preexisting': pre, 'alias': alias}

        def V(monitor, detail, **features):
            res.violation(monitor, detail + '\n' + repr(cell) + '\nstderr tail: ' + err[-600:],
                          replay=cell, fmt=fmt, **features)

        # which non-zero code stands for missing / failed modules is the tool's business; 64 is taken by
        # usage errors, and a run that ends without its report (a traceback, say) is a crash, not a verdict
        if rc == 64 or rc < 0:
            V('mibdump_exit_code', 'exit code %s for a well-formed command line' % rc, rc=rc)
            return
        rep = parse_report(err)
        if any(v is None for v in rep.values()):
            V('mibdump_exit_code' if 'Traceback' in err else 'mibdump_report_incomplete',
              'exit code %s, report lacks categories %s' % (rc, [k for k, v in rep.items() if v is None]), rc=rc)
            return
        bad = (rep['missing'] or []) + (rep['failed'] or [])
        if (rc == 0) != (not bad):
            V('exit_vs_report', 'exit %d but the report lists missing=%s failed=%s' % (rc, rep['missing'], rep['failed']))
        # construction-based categories
        reach = orch_closure(mods, g, requested, health)
        ign = '--ignore-errors' in opts
        where = dict((n, c) for c, ns in rep.items() for n in ns)
        for m in ([] if pyc_block else reach):
            got = where.get(m)
            any_bad_ = any(c in ('missing', 'failed') for c in where.values())
            blocked = ('ignored',) if (any_bad_ and not ign) else ()
            if pre.get(m) == 'fresh' and '--rebuild' not in opts:
                blocked += ('uptodate',)     # the borrowed copy is not newer than what is there
            eff = health[m]
            if eff == 'oidloop' and (('--no-dependencies' in opts and m not in requested) or
                                     (pre.get(m) == 'fresh' and '--rebuild' not in opts)):
                eff = 'ok'      # a defect only code generation can see, in a module that is not generated
            if eff == 'absent':
                ok = got in ('missing', 'borrowed') + blocked if m in borrowable else got == 'missing'
            elif eff != 'ok':
                ok = got in ('failed', 'borrowed') + blocked if m in borrowable else got == 'failed'
            else:
                ok = got in ('created', 'uptodate', 'ignored')
                any_bad = any(c in ('missing', 'failed') for c in where.values())
                if got == 'ignored' and (ign or not any_bad):
                    ok = False
                if got == 'created' and any_bad and not ign:
                    ok = False
            if not ok:
                V('category_vs_construction', 'module %s (%s%s) reported under %r' % (
                    m, health[m], ', borrowable' if m in borrowable else '', got), health=health[m], got=str(got))
        dup = [n for n in where if sum(1 for c, ns in rep.items() if n in ns) > 1]
        if dup:
            V('reported_twice', 'modules listed under two categories: %s' % dup)
        # files in the destination
        changed = set(k for k in (after or {}) if (before or {}).get(k) != after[k])
        removed = set(k for k in (before or {}) if k not in (after or {}))
        changed = set(c for c in changed if not c.startswith('__pycache__'))
        # a module whose byte-compilation failed may be removed - only if it is reported failed
        bad_removed = [k for k in removed if ext and k.endswith(ext) and k[:-len(ext)] not in (rep['failed'] or [])]
        if bad_removed:
            V('file_removed', 'destination files disappeared: %s (failed=%s)' % (bad_removed, rep['failed']))
        if '--build-index' in opts and '--dry-run' not in opts:
            changed.discard('index.json')
        expect = set()
        if ext and '--dry-run' not in opts and '--no-mib-writes' not in opts:
            expect = set(m + ext for m in (rep['created'] or []) + (rep['borrowed'] or []))
        if changed != expect:
            V('files_vs_report', 'files new/changed in the destination %s, report says created=%s borrowed=%s' % (
                sorted(changed), rep['created'], rep['borrowed']), dry=('--dry-run' in opts or '--no-mib-writes' in opts))
        # a borrowed module is the verbatim copy of the first borrower, in the order given, that holds it
        if ext and '--dry-run' not in opts and '--no-mib-writes' not in opts:
            for m in (rep['borrowed'] or []):
                try:
                    with open(os.path.join(dst, m + ext)) as f:
                        onfile = f.read()
                except OSError:
                    continue        # files_vs_report has spoken
                res.count('borrowed_files_compared')
                if m in bor_text and onfile != bor_text[m]:
                    V('borrowed_copy_source', '%s reported borrowed, the stored file reads %r, the first borrower '
                      'holding it has %r' % (m, onfile[:60], bor_text[m][:60]), two=two_borrowers)
        if watch and ino.events:
            V('dryrun_inotify_event', 'filesystem events in the destination during a dry run: %s' % ino.events[:6])
        for c, ns in rep.items():
            for _n in ns:
                res.cell('mibdump:%s:%s' % (fmt, c))
        res.cell('mibdump:exit:%d' % rc, 'mibdump:opts:' + ','.join(sorted(o.strip('-') for o in opts)))
        res.sig = harness.stable_hash(cell)
        res.nontrivial = bool(bad)
        if idx % 120 == 0:
            res.sample = dict(cell, tool='mibdump', exit=rc, report=rep, changed_files=sorted(changed))
    finally:
        shutil.rmtree(base, ignore_errors=True)


def orch_closure(mods, g, requested, health):
    seen = []
    q = list(requested)
    while q:
        m = q.pop(0)
        if m in seen:
            continue
        seen.append(m)
        if health.get(m) in ('ok', 'oidloop'):   # imports are followed once the module is parsed and registered
            q.extend(g.get(m, []))
    return seen


def case_usage(idx, rng, res):
    base = tempfile.mkdtemp(prefix='verif-c20u-', dir=env.scratch_root())
    try:
        bad = rng.choice([
            [], ['--no-such-option', 'X-MIB'], ['--destination-format=xml', 'X-MIB'],
            ['--python-optimization-level=high', 'X-MIB'], ['--mib-source'], ['--rebuild'],
        ])
        rc, err, out = run_tool(MIBDUMP, bad, base)
        res.count('usage_runs')
        if rc != 64:
            res.violation('usage_exit_code', 'mibdump %r exited %s, expected 64\n%s' % (bad, rc, err[-300:]),
                          replay={'args': bad}, rc=rc)
        res.cell('usage:%s' % (bad[0] if bad else 'none'))
        res.sig = harness.stable_hash(bad)
        # inotify positive control: a real run must produce events
        if idx % 3 == 0:
            src = os.path.join(base, 's')
            dst = os.path.join(base, 'd')
            os.makedirs(src)
            os.makedirs(dst)
            for b in orch.BASE:
                with open(os.path.join(src, b), 'w') as f:
                    f.write(pipeline.fixtures()[b])
            with open(os.path.join(src, 'AA-MIB'), 'w') as f:
                f.write(orch.module_text('AA-MIB', [], 'disk'))
            with Inotify(dst) as ino:
                rc, err, out = run_tool(MIBDUMP, ['--mib-source=' + src, '--destination-directory=' + dst,
                                                  '--destination-format=json', '--mib-borrower=' + base,
                                                  'AA-MIB'], base)
            res.count('inotify_positive_control_events', len(ino.events))
            if rc != 0 or not os.path.exists(os.path.join(dst, 'AA-MIB.json')):
                res.violation('control_run_failed', 'plain json run exit %s: %s' % (rc, err[-400:]))
    finally:
        shutil.rmtree(base, ignore_errors=True)


# ------------------------------------------------------------------------------ mibcopy

def mib_with_revision(name, revs, tag):
    t = '-- copy %s\n%s DEFINITIONS ::= BEGIN\nIMPORTS MODULE-IDENTITY, enterprises FROM SNMPv2-SMI;\n' % (tag, name)
    if revs is not None:
        t += ('%sId MODULE-IDENTITY LAST-UPDATED "%s" ORGANIZATION "o" CONTACT-INFO "c" DESCRIPTION "d %s"\n' % (
            name.split('-')[0].lower(), revs[0] if revs else '200001010000Z', tag))
        for r in revs:
            t += ' REVISION "%s" DESCRIPTION "r"\n' % r
        t += ' ::= { enterprises 4242 %d }\n' % (abs(hash(name)) % 1000)
    else:
        t += '%sNode OBJECT IDENTIFIER ::= { enterprises 4242 %d }\n' % (name.split('-')[0].lower(), abs(hash(name)) % 1000)
    return t + 'END\n'


def case_mibcopy(idx, rng, tier, res):
    base = tempfile.mkdtemp(prefix='verif-c20c-', dir=env.scratch_root())
    try:
        fix = os.path.join(base, 'fix')
        os.makedirs(fix)
        for b in orch.BASE:
            with open(os.path.join(fix, b), 'w') as f:
                f.write(pipeline.fixtures()[b])
        nsrc = rng.randint(2, 3 if tier == 'quick' else 4)
        modnames = rng.sample(['FOO-MIB', 'BAR-MIB', 'Baz-MIB'], rng.randint(1, 2))
        years = ['199%d01010000Z' % i for i in range(10)] + ['20%02d06150000Z' % i for i in range(30)]
        copies = {}      # module -> [(srcdir index, file name, revkey, text)]
        srcdirs = []
        for si in range(nsrc):
            d = os.path.join(base, 'src%d' % si)
            os.makedirs(d)
            srcdirs.append(d)
        fcount = 0
        for m in modnames:
            k = rng.randint(1, 4)
            for c in range(k):
                si = rng.randrange(nsrc)
                r = rng.random()
                if r < 0.2:
                    revs = None           # no MODULE-IDENTITY at all
                elif r < 0.35:
                    revs = []             # identity without REVISION
                else:
                    revs = sorted(rng.sample(years, rng.randint(1, 3)), key=revkey, reverse=True)
                fname = rng.choice([m, m + '.txt', 'copy%d.mib' % fcount, 'x%d' % fcount])
                if os.path.exists(os.path.join(srcdirs[si], fname)):
                    fname = 'dup%d.txt' % fcount
                fcount += 1
                text = mib_with_revision(m, revs, 'c%d' % fcount)
                with open(os.path.join(srcdirs[si], fname), 'w') as f:
                    f.write(text)
                copies.setdefault(m, []).append((si, fname, revkey(revs[0]) if revs else 0, text))
        # the dependency store given as --mib-source may itself hold a file named after a module that
        # is being copied (say, left there by an earlier run): it is neither a source nor the destination
        for m in modnames:
            if rng.random() < 0.35:
                revs = sorted(rng.sample(years, rng.randint(1, 2)), key=revkey, reverse=True)
                with open(os.path.join(fix, m), 'w') as f:
                    f.write(mib_with_revision(m, revs, 'store'))
                res.count('module_also_in_the_dependency_store')
        expect = {}
        for m, cs in copies.items():
            best = max(c[2] for c in cs)
            expect[m] = set(c[3] for c in cs if c[2] == best)
        results = {}
        perms = list(itertools.permutations(range(nsrc)))
        for perm in perms:
            dst = os.path.join(base, 'dst_' + ''.join(map(str, perm)))
            args = ['--mib-source=' + fix] + [srcdirs[i] for i in perm] + [dst]
            rc, err, out = run_tool(MIBCOPY, args, base)
            res.count('mibcopy_runs')
            cell = {'perm': perm, 'copies': dict((m, [(c[0], c[1], c[2]) for c in cs]) for m, cs in copies.items())}
            if rc != 0:
                res.violation('mibcopy_exit', 'exit %s\n%r\n%s' % (rc, cell, err[-500:]), replay=cell)
                continue
            got = {}
            for fn in os.listdir(dst) if os.path.isdir(dst) else []:
                with open(os.path.join(dst, fn)) as f:
                    got[fn] = f.read()
            results[perm] = got
            if set(got) != set(expect):
                res.violation('mibcopy_names', 'destination holds %s, expected module names %s (%r)\n%s' % (
                    sorted(got), sorted(expect), cell, err[-600:]), replay=cell)
                continue
            for m, text in got.items():
                if text not in expect[m]:
                    tag = text.split('\n')[0]
                    res.violation('mibcopy_not_latest', 'order %s: %s holds "%s", not a copy with the latest '
                                  'revision (%r)\n%s' % (perm, m, tag, cell, err[-600:]), replay=cell,
                                  has_norev=any(c[2] == 0 for c in copies[m]))
        res.evals = len(perms)
        res.cell('mibcopy:sources=%d' % nsrc, 'mibcopy:modules=%d' % len(modnames))
        res.sig = harness.stable_hash(sorted((m, [(c[0], c[2]) for c in cs]) for m, cs in copies.items()))
        res.nontrivial = any(len(cs) >= 2 for cs in copies.values())
        if idx % 100 == 1:
            res.sample = {'tool': 'mibcopy', 'copies': dict((m, [(c[0], c[1], c[2]) for c in cs]) for m, cs in copies.items()),
                          'permutations_run': len(perms)}
    finally:
        shutil.rmtree(base, ignore_errors=True)


def revkey(r):
    if r is None:
        return 0
    if len(r) == 11:
        r = '19' + r
    return int(r[:12])


def run_case(idx, rng, tier, res):
    k = idx % 10
    if k < 6:
        case_mibdump(idx, rng, tier, res)
    elif k < 9:
        case_mibcopy(idx, rng, tier, res)
    else:
        case_usage(idx, rng, res)
