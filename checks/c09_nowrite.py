"""C09 - nothing is written when any module fails, unless errors are ignored."""
from vlib import orch, harness
from checks import c07_accounting as c07

ID = 'C09'
CONTRACTS = True     # icontract recording contracts ride along (vlib/contracts.py)
LEVEL = 'fault_enumeration'
RULE = ('every placement of one failure of each kind the property lists (missing source, reader '
        'error, parse error, semantic error, code-generation error) on every module of 9 canonical '
        'import graphs x ignoreErrors on/off x borrowers present/absent, then random multi-failure '
        'scenarios on random graphs; writer failures are excluded (not in the statement); the trace '
        'of the real compile() is checked for putData events and unprocessed/compiled statuses; '
        'non-trivial = >=2 modules and >=1 module built; distinct = hash(scenario)')
ASSUMPTIONS = c07.ASSUMPTIONS

FAULTS = [('source', 'absent'), ('source_error', 'reader'), ('source_error', 'generic'),
          ('source', 'truncated'), ('source', 'lexerr'), ('source', 'synerr'), ('source', 'unresolved'), ('source', 'untyped'), ('source', 'macro_open'),
          ('source', 'dupsym'), ('source', 'ghost'), ('source', 'ghostdefval'), ('source', 'oidloop'), ('source', 'oidself'), ('source', 'empty'),
          ('parser', 'parser'),
          ('codegen', 'codegen'), ('codegen', 'semantic')]
OPTS = [{}, {'ignoreErrors': True}, {'noDeps': True}, {'noDeps': True, 'ignoreErrors': True},
        {'dryRun': True}, {'writeMibs': False}, {'writeMibs': False, 'ignoreErrors': True},
        {'genTexts': True}]
_ENUM = None


def enum():
    global _ENUM
    if _ENUM is None:
        _ENUM = [(g, v, f, o, b) for g in sorted(orch.GRAPHS) for v in orch.GRAPHS[g][0]
                 for f in range(len(FAULTS)) for o in range(len(OPTS)) for b in (0, 1)]
    return _ENUM


def plan(tier, seed):
    n = len(enum())
    if tier == 'quick':
        return {'n': 2 * n, 'budget_s': 40, 'min_evals': 2000,
                'floors': {'failure_scenarios': 2000, 'built_modules': 2000, 'nowrite_judged': 800,
                           'ignore_judged': 500}}
    return {'n': 2 * n + 120000, 'budget_s': 600, 'min_evals': 30000,
            'floors': {'failure_scenarios': 30000, 'built_modules': 30000, 'nowrite_judged': 10000,
                       'ignore_judged': 8000}}


def build_multi_missing(rng):
    """one file holds two modules; the first of them imports (without using it) a module no source has"""
    first, last = rng.choice([('AA-MIB', 'EE-MIB'), ('EE-MIB', 'AA-MIB')])
    mods = ['AA-MIB', 'EE-MIB', 'ZZ-MIB', 'BB-MIB']
    graph = {first: ['ZZ-MIB'], last: rng.choice([[], ['BB-MIB']])}
    scn = orch.new_scenario(mods, graph, [first])
    scn['files'][first] = [first, last]
    scn['sources'][0].pop(last)
    scn['sources'][0]['ZZ-MIB'] = 'absent'
    scn['options'] = rng.choice([{}, {'ignoreErrors': True}, {'genTexts': True}])
    return scn, 'multi_missing'


def run_case(idx, rng, tier, res):
    cases = enum()
    if idx % 41 == 40:
        scn, gname = build_multi_missing(rng)
        res.count('two_module_file_with_a_missing_import')
    elif idx % 2 == 0 and idx // 2 < len(cases):      # phases interleaved: a budget cut trims both alike
        gname, victim, fi, oi, withb = cases[idx // 2]
        mods, g = orch.GRAPHS[gname]
        requested = [mods[0]] if gname != 'two_roots' else mods[:2]
        scn = orch.new_scenario(mods, g, requested)
        scn['options'] = dict(OPTS[oi])
        c07.apply_fault(scn, victim, FAULTS[fi][0], FAULTS[fi][1], 0)
        if withb:
            c07.add_borrowers(scn, rng)
    else:
        scn, gname = c07.build_random(rng, tier)
        scn['writer'] = {}
        if not any(o not in ('ok',) for s in scn['sources'] for o in s.values()) and \
                not scn['parser_script'] and not scn['codegen_script']:
            m = rng.choice(scn['modules'])
            c07.apply_fault(scn, m, *FAULTS[rng.randrange(len(FAULTS))], si=0)
    run = orch.execute(scn)

    def V(monitor, detail, **features):
        res.violation(monitor, detail, replay=scn, **features)

    orch.check_nowrite(scn, run, V)
    tr = run['trace']
    result = run.get('result', {})
    built = len(tr.select('codegen', 'genCode', 'ret'))
    bad = [k for k, v in result.items() if v in ('failed', 'missing')]
    res.count('built_modules', built)
    if bad:
        res.count('failure_scenarios')
        if scn['options'].get('ignoreErrors'):
            res.count('ignore_judged')
        else:
            res.count('nowrite_judged')
    res.count('putData_events', len(tr.select('writer', 'putData', 'call')))
    res.cell('graph:' + gname, 'ignore:%s' % bool(scn['options'].get('ignoreErrors')),
             'borrowers:%d' % len(scn['borrowers']))
    res.sig = harness.stable_hash(scn)
    res.nontrivial = len(scn['modules']) >= 2 and built >= 1 and bool(bad)
    if idx % 2500 == 0:
        res.sample = {'scenario': scn, 'result': dict((k, str(v)) for k, v in result.items()),
                      'writer_calls': [e['name'] for e in tr.select('writer', 'putData', 'call')]}
