"""C18 - the OID-to-module index covers every indexed OID and merges monotonically."""
import json
import os
import shutil
import tempfile

from vlib import harness, env

ID = 'C18'
LEVEL = 'exploration'
RULE = ('histories of 1-5 incremental index builds over random compile results (1-8 modules; OID '
        'sets drawn from a small arc alphabet chosen to share decimal prefixes - 1,10,11,4,48,480,5,50 '
        '- nested / overlapping subtrees, OIDs shared between modules; all six statuses); each build '
        'feeds the previous index text back; a 15-line component-wise cover checker on int tuples '
        'judges identity / enterprise / compliance listing, cover, no foreign listing, monotonic '
        'merge and idempotent re-index; every 4th history goes through MibCompiler.buildIndex with '
        'a real FileWriter; every 9th case indexes the statuses of a real multi-module compile() of a '
        'generated set (truth = generator model); non-trivial = some OID of a module has a sibling sharing a decimal-digit '
        'prefix or a shared subtree; distinct = hash(history)')
ASSUMPTIONS = ['results are MibStatus objects built with the compiler\'s own setOptions()',
               'the index is read back with json.loads']

ARCS = [1, 10, 11, 4, 48, 480, 5, 50, 2, 22]
ROOTS = [(1, 3), (1, 3, 6, 1, 4, 1), (1, 3, 6, 1, 2, 1), (2,)]


def plan(tier, seed):
    if tier == 'quick':
        return {'n': 9000, 'budget_s': 35, 'min_evals': 3000,
                'floors': {'builds': 8000, 'oids_cover_checked': 100000, 'merge_pairs_checked': 3000,
                           'via_buildIndex': 500, 'real_compile_builds': 300}}
    return {'n': 300000, 'budget_s': 600, 'min_evals': 100000,
            'floors': {'builds': 300000, 'oids_cover_checked': 3000000, 'merge_pairs_checked': 100000,
                       'via_buildIndex': 15000, 'real_compile_builds': 8000}}


def tup(s):
    return tuple(int(x) for x in s.split('.'))


def dotted(t):
    return '.'.join(str(x) for x in t)


def is_prefix(k, o):
    return len(k) <= len(o) and o[:len(k)] == k


def gen_oids(rng, shared_pool):
    root = rng.choice(ROOTS)
    out = set()
    n = rng.randint(1, 8)
    for _ in range(n):
        if shared_pool and rng.random() < 0.25:
            out.add(rng.choice(shared_pool))
            continue
        depth = rng.randint(1, 3)
        o = root + tuple(rng.choice(ARCS) for _ in range(depth))
        out.add(o)
        if rng.random() < 0.3:
            out.add(o + (rng.choice(ARCS),))       # nested
    return out


def gen_build(rng, names, pool):
    from pysmi.compiler import statusCompiled, statusUntouched, statusFailed, statusMissing, \
        statusUnprocessed, statusBorrowed
    res = {}
    truth = {}
    for nme in names:
        r = rng.random()
        if r < 0.7:
            oids = gen_oids(rng, pool)
            pool.extend(list(oids)[:2])
            ident = dotted(rng.choice(sorted(oids))) if rng.random() < 0.7 else None
            ents = sorted(set(dotted(o[:7]) for o in oids if o[:6] == (1, 3, 6, 1, 4, 1) and len(o) > 6))
            ent = rng.choice(ents) if ents else None
            comp = [dotted(o) for o in sorted(oids) if rng.random() < 0.2]
            res[nme] = statusCompiled.setOptions(
                path='x', file=nme, alias=nme, oid=None, oids=set(dotted(o) for o in oids),
                identity=ident, revision=None, enterprise=ent, compliance=comp)
            truth[nme] = {'oids': set(oids), 'identity': ident, 'enterprise': ent, 'compliance': comp}
        else:
            res[nme] = rng.choice([statusUntouched, statusFailed, statusMissing, statusUnprocessed,
                                   statusBorrowed])
    return res, truth


def check_index(idx_doc, defined, facts, V, replay, stage):
    """idx_doc: parsed index; defined: module -> set(oid tuples) over the whole history;
    facts: list of (section, oid string, module) that must be listed."""
    n = 0
    oids = idx_doc.get('oids', {})
    keys = [(tup(k), set(v)) for k, v in oids.items()]
    for m, os_ in defined.items():
        for o in os_:
            n += 1
            if not any(is_prefix(k, o) and m in mods for k, mods in keys):
                V('oid_not_covered', '%s: OID %s of module %s has no component-wise prefix entry naming it '
                  '(entries: %s)' % (stage, dotted(o), m, sorted(k for k in oids if k.split('.')[0] == str(o[0]))[:12]),
                  replay=replay)
    for k, mods in keys:
        for m in mods:
            if k not in defined.get(m, ()):
                V('foreign_listing', '%s: module %s listed under %s which it does not define' % (
                    stage, m, dotted(k)), replay=replay)
    for section, oid, m in facts:
        if m not in idx_doc.get(section, {}).get(oid, []):
            V('%s_missing' % section, '%s: %s not listed under %s[%s]' % (stage, m, section, oid),
              replay=replay)
    return n


def case_real_compile(idx, rng, tier, res):
    """index built from the statuses of a real multi-module compile(); truth = generator model"""
    from pysmi.codegen.jsondoc import JsonCodeGen
    from checks import c01_oid
    from vlib import pipeline
    g = c01_oid.make_set(rng, 'quick')
    texts = g.texts()
    names = [m.name for m in g.modules]
    history = [{'real_compile_of': names}]

    def V(monitor, detail, replay=None):
        res.violation(monitor, detail, replay={'texts': texts}, via='compile')
    try:
        results, written = pipeline.compile_set(texts, names, codegen='json')
    except Exception as exc:
        V('compile_raised', repr(exc))
        return
    defined, facts, true_ent = {}, [], {}
    for m in g.modules:
        if results.get(m.name) != 'compiled':
            V('not_compiled', '%s is %s' % (m.name, results.get(m.name)))
            return
        oids, identity, compliance, ent = c01_oid.expected_summary(m)
        true_ent[m.name] = ent
        defined[m.name] = set(tup(o) for o in oids)
        if identity:
            facts.append(('identity', identity, m.name))
        for c in compliance:
            facts.append(('compliance', c, m.name))
    cg = JsonCodeGen()
    prev = ''
    for b in range(rng.randint(1, 2)):
        try:
            text = cg.genIndex(results, comments=['c'], old_index_data=prev)
            doc = json.loads(text)
        except Exception as exc:
            V('index_build_failed', repr(exc))
            return
        res.count('builds')
        res.count('real_compile_builds')
        res.count('oids_cover_checked', check_index(doc, defined, facts, V, None, 'real build %d' % b))
        for m in g.modules:
            ents = true_ent[m.name]       # enterprise prefixes the text really defines OIDs under
            listed = [e for e, mods in doc.get('enterprise', {}).items() if m.name in mods]
            if ents and not any(e in ents for e in listed):
                V('enterprise_missing', '%s defines OIDs below %s but is listed under enterprise %s' % (
                    m.name, sorted(ents), listed))
            if any(e not in ents for e in listed):
                V('enterprise_foreign', '%s listed under enterprise %s, its enterprise prefixes are %s' % (
                    m.name, listed, sorted(ents)))
        prev = text
    res.sig = harness.stable_hash(['real', g.signature()])
    res.nontrivial = len(g.modules) > 1
    res.cell('via:compile')


def run_case(idx, rng, tier, res):
    if idx % 9 == 8:
        return case_real_compile(idx, rng, tier, res)
    from pysmi.codegen.jsondoc import JsonCodeGen
    names_all = ['M%d-MIB' % i for i in range(8)]
    nbuilds = rng.randint(1, 5)
    pool = []
    defined = {}
    facts = []
    history = []
    prev_text = ''
    prev_doc = None
    use_compiler = idx % 4 == 3
    tmpd = None
    comp = None
    if use_compiler:
        from pysmi.compiler import MibCompiler
        from pysmi.writer import FileWriter
        from pysmi.parser.null import NullParser
        tmpd = tempfile.mkdtemp(prefix='verif-c18-', dir=env.scratch_root())
        comp = MibCompiler(NullParser(), JsonCodeGen(), FileWriter(tmpd).setOptions(suffix='.json'))
    cg = JsonCodeGen()

    def V(monitor, detail, replay=None):
        res.violation(monitor, detail, replay={'history': history}, via='buildIndex' if use_compiler else 'genIndex')

    try:
        for b in range(nbuilds):
            names = rng.sample(names_all, rng.randint(1, 6))
            results, truth = gen_build(rng, names, pool)
            history.append(dict((k, dict(status=str(v), **dict(
                (a, (sorted(getattr(v, a)) if isinstance(getattr(v, a), (set, list)) else getattr(v, a)))
                for a in ('oids', 'identity', 'enterprise', 'compliance') if hasattr(v, a))))
                for k, v in results.items()))
            for m, t in truth.items():
                defined.setdefault(m, set()).update(t['oids'])
                if t['identity']:
                    facts.append(('identity', t['identity'], m))
                if t['enterprise']:
                    facts.append(('enterprise', t['enterprise'], m))
                for c in t['compliance']:
                    facts.append(('compliance', c, m))
            try:
                if use_compiler:
                    comp.buildIndex(results)
                    with open(os.path.join(tmpd, 'index.json')) as f:
                        text = f.read()
                    res.count('via_buildIndex')
                else:
                    text = cg.genIndex(results, comments=['c%d' % b], old_index_data=prev_text)
                doc = json.loads(text)
            except Exception as exc:
                V('index_build_failed', 'build %d raised %r' % (b, exc))
                break
            res.count('builds')
            res.count('oids_cover_checked', check_index(doc, defined, facts, V, None, 'build %d' % b))
            if prev_doc is not None:
                res.count('merge_pairs_checked')
            # idempotence: re-indexing the same results on top changes nothing
            if not use_compiler:
                again = json.loads(cg.genIndex(results, comments=['c%d' % b], old_index_data=text))
                a, c = dict(again), dict(doc)
                a.pop('meta', None)
                c.pop('meta', None)
                if a != c:
                    diff = [k for k in a if a[k] != c.get(k)]
                    V('reindex_not_idempotent', 'build %d: re-indexing the same results changed sections %s' % (b, diff))
                res.count('idempotence_checked')
            prev_text, prev_doc = text, doc
    finally:
        if tmpd:
            shutil.rmtree(tmpd, ignore_errors=True)
    allo = [o for s in defined.values() for o in s]
    digit_sibs = any(a != b and len(a) == len(b) and a[:-1] == b[:-1] and
                     (str(a[-1]).startswith(str(b[-1])) or str(b[-1]).startswith(str(a[-1])))
                     for a in allo for b in allo)
    shared = len(allo) != len(set(allo))
    res.nontrivial = digit_sibs or shared
    if digit_sibs:
        res.count('histories_with_digit_prefix_siblings')
    if shared:
        res.count('histories_with_shared_oids')
    res.sig = harness.stable_hash(history)
    res.cell('builds:%d' % nbuilds, 'via:' + ('buildIndex' if use_compiler else 'genIndex'))
    if idx % 3000 == 0:
        res.sample = {'history': history, 'final_index_oids': (prev_doc or {}).get('oids')}
