"""C05 - types, constraints and default values survive compilation exactly."""
from vlib import gen, harness, pipeline, compiled, mib
from vlib.mib import pyname
from vlib.layout import Layout

ID = 'C05'
LEVEL = 'exploration'
RULE = ('modules with every built-in and application type, inline refinements, chains of type '
        'assignments and textual conventions (length <=4, across <=3 modules), boundary values of every '
        'numeric token class spelled as decimal / negative / 64-bit / hex / binary, every DEFVAL '
        'notation; the generator picks the integer first and its spelling second; JSON: syntax.type, '
        'ordered range / size alternatives, enumeration and BITS maps, default value+format for the '
        'base type reached through the chain; pysnmp: class chain, constraint alternatives found in '
        'subtypeSpec, namedValues, default of the instantiated syntax; non-trivial = chain length >=2 '
        'or a non-decimal literal; distinct = (written type, refinement kind, literal classes, DEFVAL '
        'notation, chain length)')
ASSUMPTIONS = ['pyasn1 constraint objects are introspected through their public attributes (start, '
               'stop, values)']


def plan(tier, seed):
    if tier == 'quick':
        return {'n': 1500, 'budget_s': 45, 'min_evals': 700,
                'floors': {'syntaxes_checked_json': 9000, 'constraints_checked': 3000,
                           'defvals_checked_json': 1500, 'syntaxes_checked_pysnmp': 6000,
                           'defvals_checked_pysnmp': 1000, 'chain_ge2': 1000, 'nondecimal_literals': 800}}
    return {'n': 40000, 'budget_s': 600, 'min_evals': 18000,
            'floors': {'syntaxes_checked_json': 240000, 'constraints_checked': 80000,
                       'defvals_checked_json': 40000, 'syntaxes_checked_pysnmp': 160000,
                       'defvals_checked_pysnmp': 25000, 'chain_ge2': 25000, 'nondecimal_literals': 20000}}


CLEAN = ['types', 'smi_tc', 'defval', 'defval_zero', 'split_imports', 'odd_labels']
STRESS = ['defval_bits', 'defval_oid', 'defval_empty_string', 'defval_bin_octets', 'defval_empty_hex',
          'defval_hostile_string']


def make_set(rng, tier, stress=False):
    feats = list(CLEAN) + (STRESS if stress else [])
    prof = gen.profile(modules=(1, 3), nodes=(1, 3), scalars=(2, 8), tables=(0, 1), types=(1, 6),
                       notifs=(0, 0), groups=(0, 0), syntax='rich', features=feats,
                       p_hyphen=rng.choice([0.0, 0.3]), p_defval=0.7, p_chain=0.6, max_chain=4)
    return gen.SetGen(rng, prof).build()


def want_ranges(ref):
    return [{'min': lo.value, 'max': (hi.value if hi is not None else lo.value)} for lo, hi in ref[1]]


def json_type_name(syn):
    w = syn.written
    if syn.kind == 'bits':
        return 'Bits'
    if w == 'NetworkAddress':
        return 'IpAddress'
    return pyname(w)


def check_json_syntax(res, where, syn, js, replay, feat):
    """js: the JSON 'syntax' (objects) or 'type' (type declarations) record"""
    def V(mon, what, got, want):
        res.violation(mon, '%s: %s is %r, the text says %r' % (where, what, got, want), replay=replay, **feat)
    if not isinstance(js, dict):
        V('json_syntax_missing', 'syntax record', js, syn.written)
        return
    res.count('syntaxes_checked_json')
    if js.get('type') != json_type_name(syn):
        V('json_type_name', 'type', js.get('type'), json_type_name(syn))
    if syn.kind == 'bits':
        want = dict(syn.bits)
        if js.get('bits') != want:
            V('json_bits', 'bits', js.get('bits'), want)
        res.count('constraints_checked')
        return
    cons = js.get('constraints')
    if syn.ref is None:
        if cons:
            V('json_constraints_unexpected', 'constraints', cons, None)
        return
    res.count('constraints_checked')
    kind, items = syn.ref
    if kind == 'enum':
        want = dict(items)
        got = (cons or {}).get('enumeration')
        if got != want:
            V('json_enumeration', 'enumeration', got, want)
    else:
        key = 'range' if kind == 'range' else 'size'
        got = (cons or {}).get(key)
        want = want_ranges(syn.ref)
        if got != want:
            lits = [l for pair in items for l in pair if l is not None]
            V('json_' + key, key, got, want)
        if any(l is not None and l.spelling[0] == "'" for pair in items for l in pair):
            res.count('nondecimal_literals')
    if cons and set(cons) - set(['enumeration', 'range', 'size']):
        V('json_constraint_keys', 'constraint keys', sorted(cons), kind)


def expected_default(d):
    """(basetype, format, value) the JSON default record must carry"""
    dv = d.defval
    base = d.syntax.base
    if dv.kind == 'number':
        return base, 'decimal', dv.value
    if dv.kind == 'hex':
        if base == 'Integer32':
            return base, 'hex', str(dv.value)
        return base, 'hex', dv.spelling[1:-2]
    if dv.kind == 'bin':
        if base == 'Integer32':
            return base, 'bin', str(dv.value)
        return base, 'hex', None        # judged as an integer below
    if dv.kind == 'string':
        return base, 'string', dv.value
    if dv.kind == 'enum':
        return base, 'enum', dv.value
    if dv.kind == 'bits':
        return base, 'bits', dict(dv.extra)
    if dv.kind == 'oid':
        return base, 'oid', tuple(dv.extra)
    return base, None, None


def check_json_default(res, where, d, entry, replay, feat):
    def V(mon, what, got, want):
        f = dict(feat)
        f['defval'] = d.defval.kind
        res.violation(mon, '%s: %s is %r, DEFVAL %r denotes %r' % (where, what, got, d.defval.tokens(), want),
                      replay=replay, **f)
    res.count('defvals_checked_json')
    res.cell('defval:%s:%s' % (d.defval.kind, d.syntax.base))
    rec = entry.get('default')
    base, fmt, val = expected_default(d)
    if not isinstance(rec, dict) or not rec:
        V('json_default_missing', 'default', rec, (fmt, val))
        return
    inner = rec.get('default') if 'default' in rec else rec
    if not isinstance(inner, dict):
        V('json_default_shape', 'default', rec, (fmt, val))
        return
    if 'default' not in rec:
        V('json_default_shape', 'default record nesting', sorted(rec), ['default'])
    if inner.get('basetype') != base:
        V('json_default_basetype', 'basetype', inner.get('basetype'), base)
    if inner.get('format') != fmt:
        V('json_default_format', 'format', inner.get('format'), fmt)
    got = inner.get('value')
    if d.defval.kind == 'bin' and base != 'Integer32':
        try:
            ok = int(got, 16) == d.defval.value and len(got) * 4 >= len(d.defval.spelling) - 3 - 3
        except Exception:
            ok = False
        if not ok:
            V('json_default_value', 'value', got, '%x' % d.defval.value)
    elif d.defval.kind == 'oid':
        digits = tuple(int(x) for x in __import__('re').findall(r'\d+', str(got)))
        if digits != val:
            V('json_default_value', 'value', got, val)
    elif d.defval.kind == 'bits':
        gb = got.get('bits') if isinstance(got, dict) else got
        if gb != val:
            V('json_default_value', 'value', got, val)
    elif d.defval.kind == 'hex' and base != 'Integer32':
        if str(got).lower() != str(val).lower():
            V('json_default_value', 'value', got, val)
    elif got != val:
        V('json_default_value', 'value', got, val)


# ------------------------------------------------------------------------------ pysnmp side

def flatten_constraints(spec, out):
    vals = getattr(spec, '_values', None)
    name = type(spec).__name__
    if name in ('ValueRangeConstraint', 'ValueSizeConstraint'):
        out.append((name, spec.start, spec.stop))
    elif name == 'SingleValueConstraint':
        out.append((name, tuple(sorted(vals or ()))))
    elif vals:
        for v in vals:
            if hasattr(v, '_values') or hasattr(v, 'start'):
                flatten_constraints(v, out)
    return out


def check_pysnmp_syntax(res, where, syn, obj_syntax, replay, feat):
    def V(mon, what, got, want):
        res.violation(mon, '%s: %s is %r, the text says %r' % (where, what, got, want), replay=replay, **feat)
    res.count('syntaxes_checked_pysnmp')
    mro = [k.__name__ for k in type(obj_syntax).__mro__]
    base_cls = {'Integer32': 'Integer32', 'OctetString': 'OctetString', 'ObjectIdentifier': 'ObjectIdentifier',
                'Bits': 'Bits'}[syn.base]
    want_cls = mib.PYSNMP_CLASS.get(syn.written, pyname(syn.written))
    if want_cls not in mro:
        V('pysnmp_class', 'class chain', mro[:6], want_cls)
    if syn.base == 'Integer32' and 'Integer' not in mro and 'Integer32' not in mro:
        V('pysnmp_base', 'base class', mro[:6], 'Integer')
    if syn.base == 'OctetString' and 'OctetString' not in mro:
        V('pysnmp_base', 'base class', mro[:6], 'OctetString')
    flat = flatten_constraints(obj_syntax.subtypeSpec, [])
    if syn.kind == 'bits':
        nv = dict((str(k), int(v)) for k, v in obj_syntax.namedValues.items())
        for lab, pos in syn.bits:
            if nv.get(lab) != pos:
                V('pysnmp_bits', 'namedValues[%s]' % lab, nv.get(lab), pos)
                break
        return
    if syn.ref is None:
        return
    kind, items = syn.ref
    if kind == 'enum':
        nv = dict((str(k), int(v)) for k, v in obj_syntax.namedValues.items())
        for lab, val in items:
            if nv.get(lab) != val:
                V('pysnmp_named_values', 'namedValues[%s]' % lab, nv.get(lab), val)
                break
        want = tuple(sorted(v for l, v in items))
        if not any(f[0] == 'SingleValueConstraint' and f[1] == want for f in flat):
            V('pysnmp_enum_constraint', 'single-value constraint', [f for f in flat if f[0] == 'SingleValueConstraint'][-2:], want)
    else:
        cname = 'ValueRangeConstraint' if kind == 'range' else 'ValueSizeConstraint'
        got = [(f[1], f[2]) for f in flat if f[0] == cname]
        want = [(lo.value, hi.value if hi is not None else lo.value) for lo, hi in items]
        # the written alternatives must appear, in order, as one contiguous run
        ok = any(got[i:i + len(want)] == want for i in range(len(got) - len(want) + 1))
        if not ok:
            V('pysnmp_' + kind, cname + 's', got[-6:], want)


def check_pysnmp_default(res, where, d, obj_syntax, replay, feat):
    def V(mon, what, got, want):
        f = dict(feat)
        f['defval'] = d.defval.kind
        res.violation(mon, '%s: %s is %r, DEFVAL %r denotes %r' % (where, what, got, d.defval.tokens(), want),
                      replay=replay, **f)
    res.count('defvals_checked_pysnmp')
    dv = d.defval
    base = d.syntax.base
    try:
        if not obj_syntax.hasValue():
            V('pysnmp_default_missing', 'default value', None, dv.tokens())
            return
        if base == 'Integer32':
            got = int(obj_syntax)
            want = dv.extra if dv.kind == 'enum' else dv.value
            if got != want:
                V('pysnmp_default_value', 'default', got, want)
        elif base == 'OctetString':
            got = bytes(obj_syntax)
            if dv.kind == 'string':
                want = dv.value.encode('utf-8')
            else:
                digits = dv.spelling[1:-2]
                if dv.kind == 'bin':
                    want = int(digits, 2).to_bytes(len(digits) // 8, 'big') if digits else b''
                else:
                    want = bytes.fromhex(digits if len(digits) % 2 == 0 else '0' + digits)
            if got != want:
                V('pysnmp_default_value', 'default', got, want)
        elif base == 'Bits':
            want = set(dv.value)
            names = set()
            raw = bytes(obj_syntax)
            nv = dict((int(v), str(k)) for k, v in obj_syntax.namedValues.items())
            for i, byte in enumerate(raw):
                for b in range(8):
                    if byte & (0x80 >> b):
                        names.add(nv.get(i * 8 + b, '#%d' % (i * 8 + b)))
            if names != want:
                V('pysnmp_default_value', 'default bits', sorted(names), sorted(want))
        elif base == 'ObjectIdentifier':
            got = tuple(obj_syntax)
            if got != tuple(dv.extra):
                V('pysnmp_default_value', 'default', got, tuple(dv.extra))
    except Exception as exc:
        V('pysnmp_default_unreadable', 'reading the default raised', repr(exc)[:150], dv.tokens())


def run_case(idx, rng, tier, res):
    stress = idx % 5 == 4
    g = make_set(rng, tier, stress)
    if rng.random() < 0.12:
        # the dialect the tools use (and these compiles run under) tolerates enumerations whose items are
        # separated by blanks or end in a comma: the labels and values are the same all the same
        from checks import c17_dialects
        if c17_dialects.plant(g, rng, rng.choice(['enum_spaces', 'enum_trailing'])) is not None:
            res.count('tolerated_enumeration_spellings')
    texts = g.texts((lambda: Layout(rng, 'noisy')) if rng.random() < 0.2 else None)
    gt = rng.random() < 0.3
    c = compiled.Compiled(g, texts, load_texts=gt, genTexts=gt)
    res.cell('genTexts:%s' % gt)
    replay = {'texts': texts, 'profile': 'stress' if stress else 'clean', 'genTexts': gt}
    for b, n, st, err in c.status_problems():
        dk = sorted(set(d.defval.kind for m in g.modules if m.name == n for d in m.decls
                        if getattr(d, 'defval', None) is not None))
        res.violation('not_compiled', '%s: %s is %s (%s)' % (b, n, st, err), replay=replay, backend=b,
                      stress=stress, defvals=','.join(dk) if stress else '')
    sig = []
    for m in g.modules:
        doc = c.docs.get(m.name)
        ns = c.ns(m.name)
        err = c.exec_error(m.name)
        if err is not None and not isinstance(err, pipeline.DependencyFailed):
            res.violation('pysnmp_exec', '%s: %r' % (m.name, err), replay=replay, exc=type(err).__name__,
                          stress=stress)
        for d in m.decls:
            if d.kind not in ('objecttype', 'type', 'tc'):
                continue
            if d.kind == 'objecttype' and d.role not in ('scalar', 'column'):
                continue
            syn = d.syntax
            chain = getattr(syn, 'chain', getattr(d, 'chain', 0))
            where = '%s::%s' % (m.name, d.name)
            feat = dict(kind=d.kind, written=syn.written if syn.written in mib.BASE_OF else 'named',
                        ref=(syn.ref[0] if syn.ref else ('bits' if syn.kind == 'bits' else 'none')),
                        stress=stress)
            if chain >= 2 or (d.kind != 'objecttype' and getattr(d, 'chain', 1) >= 2):
                res.count('chain_ge2')
                res.nontrivial = True
            sig.append((feat['written'], feat['ref'], chain, getattr(getattr(d, 'defval', None), 'kind', None)))
            e = doc.get(pyname(d.name)) if doc else None
            if e is not None:
                js = e.get('syntax') if d.kind == 'objecttype' else e.get('type')
                check_json_syntax(res, where, syn, js, replay, feat)
                if d.kind == 'objecttype' and d.defval is not None:
                    check_json_default(res, where, d, e, replay, feat)
                elif d.kind == 'objecttype' and e.get('default'):
                    res.violation('json_default_unexpected', '%s: default %r without DEFVAL' % (where, e.get('default')),
                                  replay=replay, **feat)
            o = ns.get(pyname(d.name)) if ns else None
            if o is not None:
                try:
                    if d.kind == 'objecttype':
                        osyn = o.getSyntax()
                    else:
                        osyn = o()
                except Exception as exc:
                    res.violation('pysnmp_syntax_unusable', '%s: instantiating the syntax raised %r' % (where, exc),
                                  replay=replay, exc=type(exc).__name__,
                                  defval=getattr(getattr(d, 'defval', None), 'kind', 'none'), **feat)
                    continue
                check_pysnmp_syntax(res, where, syn, osyn, replay, feat)
                if d.kind == 'objecttype' and d.defval is not None:
                    check_pysnmp_default(res, where, d, osyn, replay, feat)
    res.sig = harness.stable_hash(sorted(set(repr(x) for x in sig)))
    if idx % 500 == 0:
        m = g.modules[-1]
        res.sample = {'module': m.name, 'text': texts[m.name][:1500]}
