"""C16 - SMIv1 modules compile to the same objects as their SMIv2 transliteration."""
import re

from vlib import harness, pipeline
from vlib.gen import Namer, WORDS, ARCS

ID = 'C16'
LEVEL = 'exploration'
RULE = ('paired generator: a neutral model of an SMIv1-expressible module (OID nodes, scalars, tables '
        'with object indices, enumerations, sized strings, type assignments, traps with / without '
        'VARIABLES, 1-2 modules with imports between them) is rendered twice - SMIv1 (ACCESS, mandatory, '
        'Counter / Gauge / NetworkAddress / INTEGER, imports from RFC1155-SMI / RFC-1212 / RFC-1215 / '
        'RFC1213-MIB, TRAP-TYPE) and its mechanical SMIv2 transliteration - and both are compiled by '
        'the real compiler for JSON and pysnmp; the outputs are compared modulo exactly what a '
        'transliteration changes; import sweep: one tiny module per (SMIv1 base module, symbol) pair '
        'checks the module the symbol is imported from in both outputs against a home table derived '
        'by rule from the RFCs; non-trivial = pair with a table or a trap; distinct = hash(model)')
ASSUMPTIONS = ['the pair comparison ignores STATUS words, the JSON spelling of the written SMIv1 type '
               'name, clauses SMIv1 lacks and the imports record', 'SMIv1 INDEX { <type> } is outside '
               'the clean profile (known finding)']

V1_TYPES = {'Counter32': 'Counter', 'Gauge32': 'Gauge', 'IpAddress': 'IpAddress', 'TimeTicks': 'TimeTicks',
            'Opaque': 'Opaque', 'INTEGER': 'INTEGER', 'OCTET STRING': 'OCTET STRING',
            'OBJECT IDENTIFIER': 'OBJECT IDENTIFIER', 'DisplayString': 'DisplayString'}
PYCLASS = {'Counter32': 'Counter32', 'Gauge32': 'Gauge32', 'IpAddress': 'IpAddress', 'TimeTicks': 'TimeTicks',
           'Opaque': 'Opaque', 'INTEGER': 'Integer32', 'OCTET STRING': 'OctetString',
           'OBJECT IDENTIFIER': 'ObjectIdentifier', 'DisplayString': 'DisplayString'}
ROOTS = {'enterprises': (1, 3, 6, 1, 4, 1), 'experimental': (1, 3, 6, 1, 3), 'mgmt': (1, 3, 6, 1, 2),
         'private': (1, 3, 6, 1, 4), 'mib-2': (1, 3, 6, 1, 2, 1)}
STATUS12 = {'current': 'mandatory', 'deprecated': 'deprecated', 'obsolete': 'obsolete'}
ACCESS = ['read-only', 'read-write', 'not-accessible']


def plan(tier, seed):
    if tier == 'quick':
        return {'n': 900, 'budget_s': 45, 'min_evals': 400,
                'floors': {'pairs_compared': 700, 'symbols_compared': 8000, 'v1_type_objects': 1500,
                           'traps_compared': 400, 'import_pairs_swept': 200}}
    return {'n': 16000, 'budget_s': 600, 'min_evals': 8000,
            'floors': {'pairs_compared': 12000, 'symbols_compared': 150000, 'v1_type_objects': 30000,
                       'traps_compared': 8000, 'import_pairs_swept': 4000}}


# ------------------------------------------------------------------------------ neutral model

def gen_model(rng):
    namer = Namer(rng, p_hyphen=rng.choice([0.0, 0.2]))
    mods = []
    used = set()
    for mi in range(rng.randint(1, 2)):
        name = rng.choice(['ACME', 'OLD', 'Vnd']) + '-' + rng.choice(WORDS).upper() + '%d-MIB' % mi
        pfx = rng.choice(WORDS)[:3] + 'v' + str(mi)
        m = {'name': name, 'decls': [], 'nodes': []}
        mods.append(m)

        def oid(parent=None):
            if parent is None:
                cands = list(m['nodes']) + [n for mm in mods[:-1] for n in mm['nodes']]
                if cands and rng.random() < 0.8:
                    parent = rng.choice(cands[-5:] if rng.random() < 0.6 else cands)
                else:
                    rn = rng.choice(sorted(ROOTS))
                    parent = {'name': rn, 'oid': ROOTS[rn], 'module': None}
            for _ in range(100):
                arc = rng.choice(ARCS[:14]) if rng.random() < 0.4 else rng.randint(1, 300)
                t = tuple(parent['oid']) + (arc,)
                if t not in used:
                    used.add(t)
                    return parent, arc, t
            raise RuntimeError('oids')

        def add(d):
            d['module'] = name
            m['decls'].append(d)
            if 'oid' in d and d['kind'] != 'trap':
                m['nodes'].append(d)
            return d
        for _ in range(rng.randint(1, 4)):
            p, a, t = oid()
            add({'kind': 'node', 'name': namer.lower(pfx), 'parent': p, 'arc': a, 'oid': t})
        types = []
        for _ in range(rng.randint(0, 2)):
            base = rng.choice(['INTEGER', 'OCTET STRING'])
            td = {'kind': 'type', 'name': namer.upper('Ty' + pfx.capitalize()), 'base': base,
                  'ref': gen_ref(rng, namer, base)}
            types.append(add(td))

        def syntax():
            r = rng.random()
            if types and r < 0.2:
                t = rng.choice(types)
                return {'type': t['name'], 'named': True, 'ref': None, 'base': t['base']}
            w = rng.choice(sorted(V1_TYPES))
            return {'type': w, 'named': False, 'base': w,
                    'ref': gen_ref(rng, namer, w) if w in ('INTEGER', 'OCTET STRING') and rng.random() < 0.5 else None,
                    'netaddr': w == 'IpAddress' and rng.random() < 0.5}

        def obj(role, parent=None, access=None, syn=None):
            p, a, t = oid(parent)
            sy = syn or syntax()
            dv = None
            if role in ('scalar', 'column') and not sy.get('named') and not sy.get('ref') and rng.random() < 0.4:
                if sy.get('type') in ('Counter32', 'Gauge32', 'TimeTicks', 'INTEGER'):
                    dv = str(rng.choice([0, 1, 5, 100, 65535]))
                elif sy.get('type') in ('OCTET STRING', 'DisplayString'):
                    dv = '"%s"' % rng.choice(['abc', 'x y', ''])
            return add({'kind': 'object', 'role': role, 'name': namer.lower(pfx), 'parent': p, 'arc': a, 'oid': t,
                        'syntax': sy, 'defval': dv, 'access': access or rng.choice(ACCESS[:2]),
                        'status': rng.choice(sorted(STATUS12)), 'descr': ' '.join(rng.sample(WORDS, 3))})
        objs = []
        for _ in range(rng.randint(0, 4)):
            objs.append(obj('scalar'))
        for _ in range(rng.randint(0, 2)):
            seq = namer.upper('Ty' + pfx.capitalize()) + 'Entry'
            tbl = obj('table', access='not-accessible', syn={'seqof': seq})
            row = obj('row', parent=tbl, access='not-accessible', syn={'rowtype': seq})
            cols = [obj('column', parent=row) for _ in range(rng.randint(1, 4))]
            foreign = [o for mm in mods[:-1] for o in mm['decls'] if o.get('role') == 'column']
            idx = [rng.choice(cols)]
            if foreign and rng.random() < 0.4:
                idx.insert(0, rng.choice(foreign))
            elif len(cols) > 1 and rng.random() < 0.5:
                c2 = rng.choice(cols)
                if c2 is not idx[0]:
                    idx.append(c2)
            row['index'] = idx
            add({'kind': 'sequence', 'name': seq, 'cols': cols})
            objs += cols
            m['has_table'] = True
        allobjs = objs + [o for mm in mods[:-1] for o in mm['decls'] if o.get('role') in ('scalar', 'column')]
        for _ in range(rng.randint(0, 2)):
            ent = rng.choice(m['nodes'] + [n for mm in mods[:-1] for n in mm['nodes']])
            for _t in range(50):
                num = rng.choice([0, 1, 2, 6, 100, 65535]) if rng.random() < 0.5 else rng.randint(1, 200)
                t = tuple(ent['oid']) + (0, num)
                if t not in used:
                    used.add(t)
                    break
            vs = rng.sample(allobjs, min(len(allobjs), rng.randint(0, 3)))
            trap = add({'kind': 'trap', 'name': namer.lower(pfx), 'enterprise': ent, 'number': num, 'oid': t,
                        'braces': rng.random() < 0.3,
                        'vars': vs, 'descr': ' '.join(rng.sample(WORDS, 2)) if rng.random() < 0.7 else None})
            m['has_trap'] = True
            if rng.random() < 0.4:
                # something registered below the notification: resolved through the trap's own OID
                a = rng.randint(1, 9)
                if t + (a,) not in used:
                    used.add(t + (a,))
                    add({'kind': 'node', 'name': namer.lower(pfx), 'parent': trap, 'arc': a, 'oid': t + (a,)})
                    m['below_trap'] = True
        rng.shuffle(m['decls'])
    return mods


def gen_ref(rng, namer, base):
    if base == 'INTEGER':
        if rng.random() < 0.5:
            labs = []
            out = []
            for v in rng.sample(range(0, 12), rng.randint(1, 4)):
                lab = namer.label().replace('-', '')
                if lab not in labs:
                    labs.append(lab)
                    out.append((lab, v))
            return ('enum', out)
        a = rng.choice([0, 1, -5, 10])
        return ('range', [(a, a + rng.choice([1, 10, 255, 65535]))])
    a = rng.choice([0, 1, 4, 8])
    return ('size', [(a, a + rng.choice([0, 8, 255]))])


def ref_text(ref):
    if not ref:
        return ''
    if ref[0] == 'enum':
        return ' { ' + ', '.join('%s(%d)' % x for x in ref[1]) + ' }'
    body = ' | '.join('%d..%d' % x if x[0] != x[1] else '%d' % x[0] for x in ref[1])
    return ' (%s)' % body if ref[0] == 'range' else ' (SIZE (%s))' % body


# ------------------------------------------------------------------------------ rendering

def render(mods, v):
    """v in (1, 2) -> {module name: text}"""
    out = {}
    for m in mods:
        imports = {}

        def need(mod, sym):
            imports.setdefault(mod, [])
            if sym not in imports[mod]:
                imports[mod].append(sym)
        body = []
        for d in m['decls']:
            par = d.get('parent') or d.get('enterprise')
            if par is not None:
                if par['module'] is None:
                    if par['name'] == 'mib-2':
                        need('RFC1213-MIB' if v == 1 else 'SNMPv2-SMI', 'mib-2')
                    else:
                        need('RFC1155-SMI' if v == 1 else 'SNMPv2-SMI', par['name'])
                elif par['module'] != m['name']:
                    need(par['module'], par['name'])
            if d['kind'] == 'node':
                body.append('%s OBJECT IDENTIFIER ::= { %s %d }' % (d['name'], par['name'], d['arc']))
            elif d['kind'] == 'type':
                body.append('%s ::= %s%s' % (d['name'], d['base'], ref_text(d['ref'])))
            elif d['kind'] == 'sequence':
                items = []
                for c in d['cols']:
                    items.append('%s %s' % (c['name'], written_type(c['syntax'], v, need, seq=True)))
                body.append('%s ::= SEQUENCE { %s }' % (d['name'], ', '.join(items)))
            elif d['kind'] == 'object':
                need('RFC-1212' if v == 1 else 'SNMPv2-SMI', 'OBJECT-TYPE')
                syn = d['syntax']
                if 'seqof' in syn:
                    st = 'SEQUENCE OF ' + syn['seqof']
                elif 'rowtype' in syn:
                    st = syn['rowtype']
                else:
                    st = written_type(syn, v, need) + ref_text(syn.get('ref'))
                t = '%s OBJECT-TYPE SYNTAX %s %s %s STATUS %s DESCRIPTION "%s"' % (
                    d['name'], st, 'ACCESS' if v == 1 else 'MAX-ACCESS', d['access'],
                    STATUS12[d['status']] if v == 1 else d['status'], d['descr'])
                if d.get('defval') is not None:
                    t += ' DEFVAL { %s }' % d['defval']
                if d.get('index'):
                    for c in d['index']:
                        if c['module'] != m['name']:
                            need(c['module'], c['name'])
                    t += ' INDEX { %s }' % ', '.join(c['name'] for c in d['index'])
                body.append(t + ' ::= { %s %d }' % (par['name'], d['arc']))
            elif d['kind'] == 'trap':
                for c in d['vars']:
                    if c['module'] != m['name']:
                        need(c['module'], c['name'])
                if v == 1:
                    need('RFC-1215', 'TRAP-TYPE')
                    # the dialect of the tools tolerates braces around the enterprise
                    t = '%s TRAP-TYPE ENTERPRISE %s' % (d['name'], '{ %s }' % par['name'] if d.get('braces') else par['name'])
                    if d['vars']:
                        t += ' VARIABLES { %s }' % ', '.join(c['name'] for c in d['vars'])
                    if d['descr'] is not None:
                        t += ' DESCRIPTION "%s"' % d['descr']
                    body.append(t + ' ::= %d' % d['number'])
                else:
                    need('SNMPv2-SMI', 'NOTIFICATION-TYPE')
                    t = '%s NOTIFICATION-TYPE' % d['name']
                    if d['vars']:
                        t += ' OBJECTS { %s }' % ', '.join(c['name'] for c in d['vars'])
                    t += ' STATUS current DESCRIPTION "%s"' % (d['descr'] or '')
                    body.append(t + ' ::= { %s 0 %d }' % (par['name'], d['number']))
        imp = ''
        if imports:
            imp = 'IMPORTS\n' + '\n'.join('  %s FROM %s' % (', '.join(s), mod) for mod, s in imports.items()) + ';\n'
        out[m['name']] = '%s DEFINITIONS ::= BEGIN\n%s%s\nEND\n' % (m['name'], imp, '\n'.join(body))
    return out


def written_type(syn, v, need, seq=False):
    w = syn['type']
    if syn.get('named'):
        return w
    if v == 1:
        w1 = V1_TYPES[w]
        if syn.get('netaddr'):
            w1 = 'NetworkAddress'
        if w1 in ('Counter', 'Gauge', 'IpAddress', 'TimeTicks', 'Opaque', 'NetworkAddress'):
            need('RFC1155-SMI', w1)
        if w1 == 'DisplayString':
            need('RFC1213-MIB', 'DisplayString')
        return w1
    if w in ('Counter32', 'Gauge32', 'IpAddress', 'TimeTicks', 'Opaque'):
        need('SNMPv2-SMI', w)
    if w == 'DisplayString':
        need('SNMPv2-TC', 'DisplayString')
    return w


# ------------------------------------------------------------------------------ comparison

def norm_entry(e, v):
    """JSON entry with everything a transliteration legitimately changes removed"""
    e = dict(e)
    e.pop('status', None)
    e.pop('description', None)
    syn = e.get('syntax')
    if isinstance(syn, dict):
        syn = dict(syn)
        syn['type'] = {'Counter': 'Counter32', 'Gauge': 'Gauge32', 'NetworkAddress': 'IpAddress'}.get(syn.get('type'), syn.get('type'))
        e['syntax'] = syn
    return e


def case_pair(idx, rng, tier, res):
    mods = gen_model(rng)
    t1, t2 = render(mods, 1), render(mods, 2)
    names = [m['name'] for m in mods]
    replay = {'v1': t1, 'v2': t2}
    outs = {}
    for v, texts in ((1, t1), (2, t2)):
        for backend in ('json', 'pysnmp'):
            try:
                r, w = pipeline.compile_set(texts, list(reversed(names)), codegen=backend, dialect='smiV1Relaxed')
            except Exception as exc:
                res.violation('compile_raised', 'v%d %s: %r' % (v, backend, exc), replay=replay)
                return
            for n in names:
                if r.get(n) != 'compiled':
                    res.violation('not_compiled', 'SMIv%d rendering, %s backend: %s is %s (%s)' % (
                        v, backend, n, r.get(n), getattr(r.get(n), 'error', None)), replay=replay,
                        version=v, backend=backend)
                    return
            outs[(v, backend)] = w
    res.count('pairs_compared')
    for m in mods:
        d1 = pipeline.load_json(outs[(1, 'json')][m['name']][-1])
        d2 = pipeline.load_json(outs[(2, 'json')][m['name']][-1])
        k1 = set(d1) - set(['imports', 'meta'])
        k2 = set(d2) - set(['imports', 'meta'])
        if k1 != k2:
            res.violation('symbol_sets_differ', '%s: only in SMIv1 output %s, only in SMIv2 output %s' % (
                m['name'], sorted(k1 - k2), sorted(k2 - k1)), replay=replay)
        for k in sorted(k1 & k2):
            res.count('symbols_compared')
            a, b = norm_entry(d1[k], 1), norm_entry(d2[k], 2)
            if a != b:
                diff = [f for f in set(a) | set(b) if a.get(f) != b.get(f)]
                res.violation('entry_differs', '%s::%s: SMIv1 vs SMIv2 output differ in %s: %r vs %r' % (
                    m['name'], k, diff, dict((f, a.get(f)) for f in diff), dict((f, b.get(f)) for f in diff)),
                    replay=replay, fields=','.join(sorted(diff)), jclass=str(a.get('class')))
        # truth: OIDs, access, trap -> notification
        for d in m['decls']:
            key = d['name'].replace('-', '_')
            if 'oid' in d:
                want = '.'.join(str(x) for x in d['oid'])
                for v, doc in ((1, d1), (2, d2)):
                    got = (doc.get(key) or {}).get('oid')
                    if got != want:
                        res.violation('oid_differs', '%s::%s SMIv%d output oid %r, text defines %s' % (
                            m['name'], d['name'], v, got, want), replay=replay, version=v, kind=d['kind'])
            if d['kind'] == 'object' and d['role'] in ('scalar', 'column'):
                if (d1.get(key) or {}).get('maxaccess') != d['access']:
                    res.violation('access_differs', '%s::%s ACCESS %s reported as %r' % (
                        m['name'], d['name'], d['access'], (d1.get(key) or {}).get('maxaccess')), replay=replay)
            if d['kind'] == 'trap':
                res.count('traps_compared')
                if (d1.get(key) or {}).get('class') != 'notificationtype':
                    res.violation('trap_not_notification', '%s::%s class %r' % (
                        m['name'], d['name'], (d1.get(key) or {}).get('class')), replay=replay)
    # pysnmp classes of the SMIv1 types
    for v in (1, 2):
        rb = pipeline.RecBuilder(dict((n, outs[(v, 'pysnmp')][n][-1]) for n in names))
        rb.run_all()
        for m in mods:
            if m['name'] in rb.errors:
                if not isinstance(rb.errors[m['name']], pipeline.DependencyFailed):
                    res.violation('pysnmp_exec', 'SMIv%d rendering of %s: %r' % (v, m['name'], rb.errors[m['name']]),
                                  replay=replay, version=v)
                continue
            ns = rb.namespaces[m['name']]
            for d in m['decls']:
                o = ns.get(d['name'].replace('-', '_'))
                if d['kind'] == 'object' and d['role'] in ('scalar', 'column') and o is not None:
                    syn = d['syntax']
                    want = syn['type'].replace('-', '_') if syn.get('named') else PYCLASS[syn['type']]
                    mro = [k.__name__ for k in type(o.getSyntax()).__mro__]
                    if not syn.get('named'):
                        res.count('v1_type_objects')
                    if want not in mro:
                        res.violation('pysnmp_class', 'SMIv%d: %s::%s (%s) syntax class chain %s lacks %s' % (
                            v, m['name'], d['name'], syn['type'], mro[:5], want), replay=replay, version=v,
                            wtype=syn['type'])
                    kind = {'scalar': 'MibScalar', 'column': 'MibTableColumn'}[d['role']]
                    if type(o).__name__ != kind:
                        res.violation('pysnmp_kind', 'SMIv%d: %s::%s is %s' % (v, m['name'], d['name'], type(o).__name__),
                                      replay=replay, version=v)
                if d['kind'] == 'trap' and o is not None:
                    if type(o).__name__ != 'NotificationType' or tuple(o.getName()) != d['oid']:
                        res.violation('pysnmp_trap', 'SMIv%d: %s::%s is %s %r' % (
                            v, m['name'], d['name'], type(o).__name__, tuple(o.getName())), replay=replay, version=v)
                    else:
                        want_objs = [(c['module'], c['name'].replace('-', '_')) for c in d['vars']]
                        try:
                            got_objs = [(a_, b_.replace('-', '_')) for a_, b_ in o.getObjects()]
                        except Exception as exc:
                            got_objs = repr(exc)
                        res.count('trap_objects_compared')
                        if got_objs != want_objs:
                            res.violation('pysnmp_trap_objects', 'SMIv%d: %s::%s carries %r, the text lists %r' % (
                                v, m['name'], d['name'], got_objs, want_objs), replay=replay, version=v)
    res.sig = harness.stable_hash([[(d['kind'], d.get('role'), d.get('syntax', {}).get('type') if isinstance(d.get('syntax'), dict) else None)
                                    for d in m['decls']] for m in mods])
    res.nontrivial = any(m.get('has_table') or m.get('has_trap') for m in mods)
    if any(m.get('below_trap') for m in mods):
        res.count('pairs_with_a_node_below_a_trap')
    if idx % 300 == 0:
        res.sample = {'smiv1': t1[names[-1]][:900], 'smiv2': t2[names[-1]][:900]}


# ------------------------------------------------------------------------------ import sweep

def home_of(v1mod, sym):
    """independent home table, by rule from the RFCs"""
    smi_same = ('internet', 'directory', 'mgmt', 'experimental', 'private', 'enterprises', 'OBJECT-TYPE',
                'ObjectName', 'ObjectSyntax', 'SimpleSyntax', 'ApplicationSyntax', 'TimeTicks', 'Opaque',
                'IpAddress')
    if v1mod in ('RFC1155-SMI', 'RFC1065-SMI'):
        if sym in smi_same:
            return 'SNMPv2-SMI', sym
        return {'NetworkAddress': ('SNMPv2-SMI', 'IpAddress'), 'Counter': ('SNMPv2-SMI', 'Counter32'),
                'Gauge': ('SNMPv2-SMI', 'Gauge32')}.get(sym)
    if v1mod == 'RFC-1212':
        return ('SNMPv2-SMI', 'OBJECT-TYPE') if sym == 'OBJECT-TYPE' else None
    if v1mod == 'RFC-1215':
        return ('SNMPv2-SMI', 'TRAP-TYPE') if sym == 'TRAP-TYPE' else None
    if v1mod in ('RFC1213-MIB', 'RFC1158-MIB'):
        if sym == 'nullSpecific':
            return 'SNMPv2-SMI', 'zeroDotZero'
        if sym == 'ipRoutingTable':
            return 'RFC1213-MIB', 'ipRouteTable'
        if sym in ('mib-2', 'transmission'):
            return 'SNMPv2-SMI', sym
        if sym == 'DisplayString' or (sym == 'PhysAddress' and v1mod == 'RFC1213-MIB'):
            return 'SNMPv2-TC', sym
        if sym == 'snmpEnableAuthTraps':
            return 'SNMPv2-MIB', 'snmpEnableAuthenTraps'
        if sym == 'system' or sym.startswith('sys') or sym == 'snmp' or sym.startswith('snmp'):
            return 'SNMPv2-MIB', sym
        if sym == 'interfaces' or sym.startswith('if'):
            return 'IF-MIB', sym
        if sym.startswith('ipRoute') or sym.startswith('egp'):
            return 'RFC1213-MIB', sym
        if sym == 'at' or sym.startswith('at'):
            return 'RFC1213-MIB', sym
        if sym == 'ip' or sym.startswith('ip') or sym == 'icmp' or sym.startswith('icmp'):
            return 'IP-MIB', sym
        if sym == 'tcp' or sym.startswith('tcp'):
            return 'TCP-MIB', sym
        if sym == 'udp' or sym.startswith('udp'):
            return 'UDP-MIB', sym
    return None


class DummyBuilder(object):
    loadTexts = False

    def __init__(self):
        self.calls = []

    def importSymbols(self, mod, *syms):
        self.calls.append((mod, syms))
        return tuple(type('X', (object,), {}) for _ in syms)

    def exportSymbols(self, *a, **kw):
        pass


SMI_OBJECTS = {'OBJECT-TYPE': 'MibScalar', 'TRAP-TYPE': 'NotificationType'}
_SWEEP = None


def sweep_pairs():
    global _SWEEP
    if _SWEEP is None:
        from pysmi.codegen.base import AbstractCodeGen
        pairs = []
        smi_syms = set(AbstractCodeGen.convertImportv2['RFC1155-SMI'])
        for v1mod, table in sorted(AbstractCodeGen.convertImportv2.items()):
            for sym in sorted(table):
                if v1mod in ('RFC1213-MIB', 'RFC1158-MIB') and sym in smi_syms:
                    continue        # not a symbol of that module: no meaningful input
                pairs.append((v1mod, sym))
        for v1mod in ('RFC1155-SMI', 'RFC1065-SMI', 'RFC1213-MIB', 'RFC1158-MIB', 'RFC-1212', 'RFC-1215'):
            pairs.append((v1mod, 'notABaseSymbol'))
        _SWEEP = pairs
    return _SWEEP


def case_sweep(idx, rng, tier, res):
    from pysmi.codegen.symtable import SymtableCodeGen
    pairs = sweep_pairs()
    chunk = [pairs[(idx * 7 + i) % len(pairs)] for i in range(7)]
    p = pipeline.make_parser('smiV1Relaxed')
    for v1mod, sym in chunk:
        # half of the time the statement also names a symbol of that module which has no SMIv2 home:
        # it has to stay where it is while its neighbour moves
        keep = rng.choice([None, 'first', 'last', 'twice']) if sym != 'notABaseSymbol' else None
        syms = {None: sym, 'first': 'stayHere, ' + sym, 'last': sym + ', stayHere',
                'twice': '%s, stayHere, %s' % (sym, sym)}[keep]       # a symbol may be listed twice
        text = 'SW-MIB DEFINITIONS ::= BEGIN IMPORTS %s FROM %s; END' % (syms, v1mod)
        res.count('import_pairs_swept')
        want = home_of(v1mod, sym)
        try:
            ast = p.parse(text)[0]
            import copy
            # as in compile(): the symbol table pass and the code generator see the very same tree
            outs = {}
            for b in ('json', 'pysnmp'):
                tree = copy.deepcopy(ast)
                mi, st = SymtableCodeGen().genCode(tree, {})
                _mi, outs[b] = pipeline.make_codegen(b).genCode(tree, {mi.name: st})
            jtext, ptext = outs['json'], outs['pysnmp']
        except Exception as exc:
            res.violation('sweep_failed', 'importing %s from %s: %r' % (sym, v1mod, exc), replay={'text': text})
            continue
        imps = pipeline.load_json(jtext).get('imports', {})
        where = [m for m, syms in imps.items() if isinstance(syms, list) and
                 ((want and want[1] in syms) or sym in syms)]
        db = DummyBuilder()
        try:
            exec(compile(ptext, 'SW-MIB', 'exec'), {'mibBuilder': db})
        except Exception as exc:
            res.violation('sweep_pysnmp_exec', 'importing %s from %s: %r' % (sym, v1mod, exc), replay={'text': text})
            continue
        if keep:
            res.count('sweep_with_unmapped_neighbour')
            if 'stayHere' not in (imps.get(v1mod) or []):
                res.violation('sweep_neighbour_lost', '%s FROM %s: the JSON imports no longer list stayHere under %s: %r' % (
                    syms, v1mod, v1mod, imps), replay={'text': text}, v1mod=v1mod, sym=sym)
            if not any(m == v1mod and 'stayHere' in ss for m, ss in db.calls):
                res.violation('sweep_neighbour_lost', '%s FROM %s: the pysnmp module no longer imports stayHere from %s: %r' % (
                    syms, v1mod, v1mod, db.calls), replay={'text': text}, v1mod=v1mod, sym=sym, backend='pysnmp')
        if want is None:
            # no SMIv2 home: stays where it was written
            if v1mod not in where:
                res.violation('sweep_moved_unexpectedly', '%s FROM %s ended up under %s' % (sym, v1mod, where),
                              replay={'text': text}, v1mod=v1mod)
            continue
        home, target = want
        jhome = [m for m, syms in imps.items() if isinstance(syms, list) and target in syms]
        if home not in jhome or (v1mod != home and sym in (imps.get(v1mod) or [])):
            res.violation('sweep_json_home', '%s FROM %s: JSON imports list it under %s, SMIv2 home is %s::%s' % (
                sym, v1mod, jhome or where, home, target), replay={'text': text}, v1mod=v1mod, sym=sym)
        ptarget = SMI_OBJECTS.get(target, target)
        phome = [m for m, syms in db.calls if ptarget in syms]
        pstay = [m for m, syms in db.calls if m == v1mod and (sym in syms or ptarget in syms)]
        if home not in phome or (pstay and v1mod != home):
            res.violation('sweep_pysnmp_home', '%s FROM %s: pysnmp imports %s from %s, SMIv2 home is %s' % (
                sym, v1mod, ptarget, phome or pstay, home), replay={'text': text}, v1mod=v1mod, sym=sym)
        res.cell('sweep:%s->%s' % (v1mod, home))
    res.sig = harness.stable_hash(chunk)
    res.evals = len(chunk)
    res.nontrivial = True


def case_typed_index(idx, rng, tier, res):
    """stress: RFC 1212 allows INDEX { <type> }; pysmi's support for it is unfinished"""
    ty = rng.choice(['INTEGER', 'OCTET STRING', 'IpAddress', 'NetworkAddress'])
    text = ('TI-MIB DEFINITIONS ::= BEGIN IMPORTS enterprises, IpAddress, NetworkAddress FROM RFC1155-SMI '
            'OBJECT-TYPE FROM RFC-1212;\n'
            'tiTable OBJECT-TYPE SYNTAX SEQUENCE OF TiEntry ACCESS not-accessible STATUS mandatory DESCRIPTION "t" ::= { enterprises 77 1 }\n'
            'tiEntry OBJECT-TYPE SYNTAX TiEntry ACCESS not-accessible STATUS mandatory DESCRIPTION "e" INDEX { %s, tiCol } ::= { tiTable 1 }\n'
            'TiEntry ::= SEQUENCE { tiCol INTEGER }\n'
            'tiCol OBJECT-TYPE SYNTAX INTEGER ACCESS read-only STATUS mandatory DESCRIPTION "c" ::= { tiEntry 1 }\nEND\n' % ty)
    for backend in ('json', 'pysnmp'):
        res.count('typed_index_compiles')
        try:
            r, w = pipeline.compile_set({'TI-MIB': text}, ['TI-MIB'], codegen=backend, dialect='smiV1Relaxed')
        except Exception as exc:
            import traceback
            tb = traceback.format_exc()
            res.violation('compile_raised', 'SMIv1 module with INDEX { %s }: compile() raised %r' % (ty, exc),
                          replay={'text': text}, backend=backend, typed_index=True,
                          cause='fake_column')
            continue
        st = r.get('TI-MIB')
        if st != 'compiled':
            err = str(getattr(st, 'error', None))
            res.violation('not_compiled', 'SMIv1 module with INDEX { %s } is %s (%s)' % (ty, st, err),
                          replay={'text': text}, backend=backend, typed_index=True,
                          cause='fake_column')
    res.sig = 'typed:' + ty
    res.nontrivial = True


def run_case(idx, rng, tier, res):
    if idx % 5 == 4:
        case_sweep(idx // 5, rng, tier, res)
    elif idx % 50 == 7:
        case_typed_index(idx, rng, tier, res)
    else:
        case_pair(idx, rng, tier, res)
