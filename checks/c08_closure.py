"""C08 - dependencies followed transitively, in source order, each fetched once; terminates."""
from vlib import orch, harness

ID = 'C08'
CONTRACTS = True     # icontract recording contracts ride along (vlib/contracts.py)
LEVEL = 'exploration'
RULE = ('random digraphs over 1-8 tiny modules (chains, diamonds, cycles, self loops, multi-module '
        'files) x 1-4 sources each holding a random subset with its own tagged copy; all texts are '
        'well formed; the boundary trace of the real compile() is checked offline: closure, per-name '
        'fetch sequence (insertion order, stop at first holder), text identity parser<-first holder, '
        'written text carries the first holder\'s tag, logical progress bound; non-trivial = cycle / '
        'self loop or a module held by >=2 sources; distinct = hash(scenario)')
ASSUMPTIONS = ['file names equal module names except for deliberate multi-module files whose extra '
               'modules nobody imports', 'termination is judged on logical counters; the wall-clock '
               'watchdog only yields inconclusive']


def plan(tier, seed):
    if tier == 'quick':
        return {'n': 6000, 'budget_s': 40, 'min_evals': 2000,
                'floors': {'fetch_events': 20000, 'cyclic_or_selfloop': 500, 'multi_holder': 1500}}
    return {'n': 150000, 'budget_s': 600, 'min_evals': 40000,
            'floors': {'fetch_events': 400000, 'cyclic_or_selfloop': 10000, 'multi_holder': 30000}}


def build(rng, tier):
    mods, g = orch.random_graph(rng, nmax=8 if tier == 'thorough' else 6,
                                p_edge=rng.choice([0.15, 0.3, 0.6]), allow_cycles=rng.random() < 0.7)
    requested = [m for m in mods if rng.random() < 0.35] or [rng.choice(mods)]
    rng.shuffle(requested)
    ns = rng.randint(1, 4)
    scn = orch.new_scenario(mods, g, requested, nsources=ns)
    imported = set(d for v in g.values() for d in v)
    # multi-module file: fold a module nobody imports and nobody requests into another's file
    loose = [m for m in mods if m not in imported and m not in requested]
    if loose and len(mods) > 1 and rng.random() < 0.3:
        extra = rng.choice(loose)
        host = rng.choice([m for m in mods if m != extra])
        scn['files'][host] = [host, extra]
        scn['folded'] = extra
    for si in range(ns):
        for m in mods:
            if m == scn.get('folded'):
                scn['sources'][si].pop(m, None)
                continue
            if rng.random() < (0.0 if ns == 1 else 0.45):
                scn['sources'][si][m] = 'absent'
    # an earlier source may hold a broken copy: the later, well-formed copy is the one compiled and its
    # IMPORTS are followed all the same
    if ns > 1 and rng.random() < 0.2:
        m = rng.choice([x for x in mods if x != scn.get('folded')])
        scn['sources'][0][m] = rng.choice(['synerr', 'lexerr', 'truncated', 'empty', 'comments', 'untyped', 'macro_open', 'choice_open'])
        scn['sources'][rng.randrange(1, ns)][m] = 'ok'
        scn['broken_first_copy'] = m
    # a module whose OIDs are defined in terms of each other (it parses, its imports are followed, its code
    # cannot be generated): the call ends all the same
    if rng.random() < 0.08:
        m = rng.choice([x for x in mods if x != scn.get('folded')])
        for si in range(ns):
            if scn['sources'][si].get(m) == 'ok':
                scn['sources'][si][m] = rng.choice(['oidloop', 'oidself'])
        scn['oid_cycle'] = m
    # a file named unlike its module, whose module imports the file's own name (and is requested by it)
    if rng.random() < 0.08 and not scn['files']:
        m = rng.choice(mods)
        imported_ = set(d for v in g.values() for d in v)
        if m not in imported_:
            alias = m.replace('-MIB', '-FILE')      # must be a legal module name to be importable
            scn['files'][alias] = [m]
            scn['requested'] = [alias if r == m else r for r in scn['requested']]
            if alias not in scn['requested']:
                scn['requested'].append(alias)
            scn['graph'][m] = scn['graph'][m] + [alias]
            scn['self_alias_import'] = True
            if rng.random() < 0.5:
                # the readers report every file under another spelling of the name it was asked by
                scn['source_alias'] = 'lower'
    if 'source_alias' not in scn and rng.random() < 0.1:
        scn['source_alias'] = 'lower'
    # SMIv1 style dependencies: every symbol imported from them is rewritten to an SMIv2 home, the
    # module is named in IMPORTS all the same and belongs to the closure
    if rng.random() < 0.3:
        from vlib.orch import V1_BASE
        served = [b for b in sorted(V1_BASE) if rng.random() < 0.7]
        scn['base_extra'] = served
        for m in mods:
            if rng.random() < 0.4:
                scn['graph'][m] = scn['graph'][m] + rng.sample(sorted(V1_BASE), rng.randint(1, 2))
        scn['v1'] = True
    if rng.random() < 0.3:
        scn['options']['ignoreErrors'] = True
    return scn


def run_case(idx, rng, tier, res):
    scn = build(rng, tier)
    run = orch.execute(scn)

    def V(monitor, detail, **features):
        res.violation(monitor, detail, replay=scn, **features)

    orch.check_fetching(scn, run, V)
    tr = run['trace']
    cls = orch.graph_class(scn)
    res.count('fetch_events', len(tr.select('source', 'getData', 'call')))
    res.count('parse_events', len(tr.select('parser', 'parse', 'call')))
    multi = sum(1 for m in scn['modules'] if sum(1 for s in scn['sources'] if s.get(m) == 'ok') >= 2)
    res.count('multi_holder', multi)
    if cls != 'dag':
        res.count('cyclic_or_selfloop')
    if scn['files']:
        res.count('multi_module_files')
    if scn.get('v1'):
        res.count('smiv1_style_import_scenarios')
    if scn.get('self_alias_import'):
        res.count('alias_file_importing_its_own_name')
    if scn.get('oid_cycle'):
        res.count('modules_with_oids_defined_in_terms_of_each_other')
    if scn.get('source_alias'):
        res.count('sources_reporting_another_spelling')
    if scn.get('broken_first_copy'):
        res.count('broken_copy_in_earlier_source')
    res.cell('graph:' + cls, 'sources:%d' % len(scn['sources']),
             'closure:%d' % min(8, len(orch.closure(scn, scn['requested']))))
    res.sig = harness.stable_hash(scn)
    res.nontrivial = cls != 'dag' or multi > 0
    if idx % 2000 == 0:
        res.sample = {'scenario': scn, 'result': dict((k, str(v)) for k, v in run.get('result', {}).items()),
                      'fetches': [(e['comp'], e['name'], e['phase']) for e in tr.select('source')][:30]}
