"""C01 - valid module sets compile; every symbol gets the OID the text defines.

Oracle: the absolute OIDs attached to every node by the generator (never computed by any
resolution logic).  Observed: JSON documents, executed pysnmp modules (recording builder)
and the MibStatus summaries (oids / identity / compliance / enterprise) of compile().
"""
from vlib import gen, pipeline, harness
from vlib.layout import Layout
from vlib.mib import pyname

ID = 'C01'
CONTRACTS = True     # icontract recording contracts ride along (vlib/contracts.py)
LEVEL = 'exploration'
RULE = ('seeded generator of well-formed module sets (1-4 modules, OID trees with local/forward/'
        'imported parents, numeric / iso / name(number) spellings, all OID-bearing kinds, traps); '
        'each set is compiled with the real MibCompiler for JSON and pysnmp; a case is non-trivial '
        'when it has >=1 imported parent and >=1 forward reference; distinct = structural '
        'signature (kinds, parent relation, arc spelling, depth per declaration)')
ASSUMPTIONS = ['base modules (SNMPv2-SMI/-TC/-CONF, RFC-1215) are hand-written fixtures served by a '
               'CallbackReader and masked from generation by StubSearcher',
               'pysnmp 7.1.29 executes the generated Python (its own compiled SNMPv2-* modules play '
               'the base MIBs)']


def plan(tier, seed):
    if tier == 'quick':
        return {'n': 1600, 'budget_s': 40, 'min_evals': 200,
                'floors': {'nodes_checked_json': 2000, 'nodes_checked_pysnmp': 2000,
                           'parent_imported': 100, 'forward_parent_refs': 100, 'trap': 30}}
    return {'n': 40000, 'budget_s': 600, 'min_evals': 5000,
            'floors': {'nodes_checked_json': 50000, 'nodes_checked_pysnmp': 50000,
                       'parent_imported': 2000, 'forward_parent_refs': 2000, 'trap': 500}}


def make_set(rng, tier):
    big = tier == 'thorough'
    prof = gen.profile(
        modules=(1, 6 if big else 4), nodes=(2, 20 if big else 9), scalars=(0, 4), tables=(0, 2),
        notifs=(0, 2), groups=(0, 2), max_arcs=4 if big else 3,
        features=['split_imports', 'traps', 'compliance', 'capabilities'], syntax='trivial',
        p_hyphen=rng.choice([0.0, 0.25, 0.6]), p_label_arc=rng.choice([0.0, 0.2, 0.5]),
        p_numeric_root=rng.choice([0.05, 0.15, 0.4]), depth_bias=rng.choice([0.3, 0.7, 0.95]),
        p_cross_parent=rng.choice([0.3, 0.6, 0.9]))
    return gen.SetGen(rng, prof).build()


def expected_summary(mod):
    oids = set()
    identity = None
    compliance = []
    for d in mod.decls:
        o = getattr(d, 'oid', None)
        if o is None:
            continue
        oids.add(o.dotted())
        if d.kind == 'moduleidentity':
            identity = o.dotted()
        if d.kind == 'modulecompliance':
            compliance.append(o.dotted())
    ent = set('.'.join(x.split('.')[:7]) for x in oids if x.startswith('1.3.6.1.4.1.'))
    return oids, identity, compliance, ent


def run_case(idx, rng, tier, res):
    g = make_set(rng, tier)
    noisy = rng.random() < 0.3
    texts = g.texts((lambda: Layout(rng, 'noisy')) if noisy else None)
    names = [m.name for m in g.modules]
    imports = dict((m.name, [x for x, _syms in m.imports if x in names]) for m in g.modules)

    def reach(start):
        seen, q = set(), list(start)
        while q:
            n = q.pop()
            if n not in seen:
                seen.add(n)
                q.extend(imports.get(n, []))
        return seen
    # what is asked for: everything in some order, or only the roots of the import graph (the rest has
    # to be found through IMPORTS); a third of the sets keeps two modules in one file, the one nobody
    # imports first, and that file is asked for by the name of its last module only
    mode = rng.choice(['all', 'reversed', 'roots', 'roots'])
    if len(names) >= 2 and rng.random() < 0.33:
        first, host = names[-1], rng.choice(names[:-1])
        if first not in reach([host]) - set([host]) and not any(first in v for v in imports.values()):
            texts = dict(texts)
            texts[host] = texts.pop(first) + '\n' + texts[host]
            res.count('two_modules_in_one_file')
            mode = 'roots'
            imports[host] = imports[host] + imports[first]      # the file's closure
            imports.pop(first)
    fnames = [n for n in names if n in texts]
    if mode == 'all':
        requested = list(fnames)
    elif mode == 'reversed':
        requested = list(reversed(fnames))
    else:
        requested = []
        for n in reversed(fnames):
            if n not in reach(requested):
                requested.append(n)
        rng.shuffle(requested)
    res.cell('ask:' + mode)
    res.sig = harness.stable_hash(g.signature())
    for k, v in g.stats.items():
        res.count(k, v)
    imported_parent = g.stats.get('parent_imported', 0) + g.stats.get('trap_enterprise_imported', 0)
    res.nontrivial = imported_parent >= 1 and g.stats.get('forward_parent_refs', 0) >= 1
    gt = rng.random() < 0.3
    replay = {'texts': texts, 'requested': requested, 'genTexts': gt}

    outs = {}
    for backend in ('json', 'pysnmp'):
        try:
            results, written = pipeline.compile_set(texts, requested, codegen=backend, genTexts=gt)
        except Exception as exc:
            res.violation('compile_raised', '%s backend: %r' % (backend, exc), replay=replay,
                          backend=backend)
            continue
        outs[backend] = (results, written)
        for m in g.modules:
            st = results.get(m.name)
            if st != 'compiled':
                res.violation('status_not_compiled', '%s backend: module %s is %r (%s)' % (
                    backend, m.name, st, getattr(st, 'error', None)), replay=replay, backend=backend)
                continue
            res.count('modules_compiled_' + backend)
            oids, identity, compliance, ent = expected_summary(m)
            got = set(getattr(st, 'oids', ()) or ())
            if got != oids:
                res.violation('summary_oids', '%s: MibStatus.oids differs: missing %s, extra %s' % (
                    m.name, sorted(oids - got)[:5], sorted(got - oids)[:5]), replay=replay,
                    backend=backend)
            if (getattr(st, 'identity', None) or None) != identity:
                res.violation('summary_identity', '%s: identity %r, expected %r' % (
                    m.name, getattr(st, 'identity', None), identity), replay=replay, backend=backend)
            if sorted(getattr(st, 'compliance', ()) or ()) != sorted(compliance):
                res.violation('summary_compliance', '%s: compliance %r, expected %r' % (
                    m.name, getattr(st, 'compliance', None), compliance), replay=replay,
                    backend=backend)
            got_ent = getattr(st, 'enterprise', None) or None
            if (got_ent is None) != (not ent) or (got_ent is not None and got_ent not in ent):
                res.violation('summary_enterprise', '%s: enterprise %r, expected one of %r' % (
                    m.name, got_ent, sorted(ent)), replay=replay, backend=backend)
            res.count('summaries_checked')

    # ---- JSON documents
    if 'json' in outs:
        results, written = outs['json']
        for m in g.modules:
            if results.get(m.name) != 'compiled':
                continue
            try:
                doc = pipeline.load_json(written[m.name][-1])
            except Exception as exc:
                res.violation('json_unreadable', '%s: %r' % (m.name, exc), replay=replay)
                continue
            for d in m.decls:
                o = getattr(d, 'oid', None)
                if o is None:
                    continue
                ent_ = doc.get(pyname(d.name))
                got = ent_.get('oid') if isinstance(ent_, dict) else None
                res.count('nodes_checked_json')
                res.cell('json:%s:%s' % (d.kind, relation(m, d)))
                if got != o.dotted():
                    res.violation('json_oid', '%s::%s (%s) JSON oid %r, text defines %s' % (
                        m.name, d.name, d.kind, got, o.dotted()), replay=replay, kind=d.kind,
                        relation=relation(m, d))

    # ---- executed pysnmp modules
    if 'pysnmp' in outs:
        results, written = outs['pysnmp']
        pyt = dict((m.name, written[m.name][-1]) for m in g.modules
                   if results.get(m.name) == 'compiled' and m.name in written)
        rb = pipeline.RecBuilder(pyt, load_texts=False)
        rb.run_all()
        for m in g.modules:
            if m.name not in pyt:
                continue
            if isinstance(rb.errors.get(m.name), pipeline.DependencyFailed):
                res.count('pysnmp_exec_cascade')
                continue
            if m.name in rb.errors:
                res.count('pysnmp_exec_failed')
                res.violation('pysnmp_exec', '%s: executing the generated module raised %r' % (
                    m.name, rb.errors[m.name]), replay=replay,
                    exc=type(rb.errors[m.name]).__name__)
                continue
            ns = rb.namespaces[m.name]
            for d in m.decls:
                o = getattr(d, 'oid', None)
                if o is None:
                    continue
                obj = ns.get(pyname(d.name))
                res.count('nodes_checked_pysnmp')
                res.cell('pysnmp:%s:%s' % (d.kind, relation(m, d)))
                try:
                    got = tuple(obj.getName())
                except Exception as exc:
                    got = repr(exc)
                if got != o.truth:
                    res.violation('pysnmp_oid', '%s::%s (%s) pysnmp name %r, text defines %r' % (
                        m.name, d.name, d.kind, got, o.truth), replay=replay, kind=d.kind,
                        relation=relation(m, d))
    if idx % 400 == 0:
        res.sample = {'modules': names, 'layout': 'noisy' if noisy else 'plain',
                      'text_of_last_module': texts[fnames[-1]][:1500],
                      'truth_sample': dict((d.name, d.oid.dotted()) for d in g.modules[-1].decls
                                           if getattr(d, 'oid', None) is not None)}


def relation(m, d):
    o = d.enterprise if d.kind == 'traptype' else d.oid
    par = o.parent
    if par is None:
        return 'numeric'
    if par[0] == '':
        return 'iso'
    if par[0] == 'SNMPv2-SMI':
        return 'base'
    if par[0] != m.name:
        return 'imported%d' % min(3, getattr(d, 'import_depth', 1))
    return 'local'
