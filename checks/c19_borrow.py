"""C19 - borrowing only for modules that cannot be compiled, flavour-matched, verbatim."""
import os
import shutil
import tempfile

from vlib import orch, harness, env
from checks import c07_accounting as c07

ID = 'C19'
CONTRACTS = True     # icontract recording contracts ride along (vlib/contracts.py)
LEVEL = 'fault_enumeration'
RULE = ('part A: every single failure placement (missing / reader error / parse / semantic / codegen) '
        'on canonical and random import graphs x 1-3 borrowers (flavour, holdings, errors) x noDeps x '
        'genTexts x ignoreErrors x searchers reporting the borrowed copy fresh/stale; boundary trace '
        'of the real compile() (real AnyFileBorrower / PyFileBorrower around reader doubles) checked '
        'for who is offered, order, flavour, verbatim payload, status, no blocking; part B: real '
        'PyFileBorrower / AnyFileBorrower over FileReader directories holding X, X.py, X.json, X.txt '
        '... - only files with the borrower\'s extensions are eligible; part C: mibdump with 2-4 '
        '--mib-borrower directories in a non-sorted order, flavours decided by the position of '
        '--generate-mib-texts: the stored copy is the first matching borrower\'s, verbatim; non-trivial = a borrower '
        'delivered something; distinct = hash(scenario)')
ASSUMPTIONS = c07.ASSUMPTIONS + ['part B uses real files in a temp directory']

FAULTS = [('source', 'absent'), ('source_error', 'reader'), ('source', 'truncated'),
          ('source', 'synerr'), ('source', 'unresolved'), ('source', 'untyped'), ('source', 'macro_open'), ('source', 'ghost'), ('source', 'oidloop'), ('source', 'empty'),
          ('parser', 'parser'), ('codegen', 'codegen'), ('none', None)]


def plan(tier, seed):
    if tier == 'quick':
        return {'n': 7000, 'budget_s': 40, 'min_evals': 3000,
                'floors': {'borrower_calls': 3000, 'borrowed_delivered': 800, 'flavour_skips': 300,
                           'real_layer_cells': 300}}
    return {'n': 200000, 'budget_s': 600, 'min_evals': 60000,
            'floors': {'borrower_calls': 60000, 'borrowed_delivered': 20000, 'flavour_skips': 8000,
                       'real_layer_cells': 8000}}


def build(rng, tier):
    if rng.random() < 0.6:
        gname = rng.choice(sorted(orch.GRAPHS))
        mods, g = orch.GRAPHS[gname]
        g = dict((k, list(v)) for k, v in g.items())
    else:
        gname = 'random'
        mods, g = orch.random_graph(rng, nmax=5)
    requested = [m for m in mods if rng.random() < 0.4] or [mods[0]]
    scn = orch.new_scenario(mods, g, requested, nsources=rng.choice([1, 1, 2]))
    for si in range(len(scn['sources'])):
        if si:
            for m in mods:
                if rng.random() < 0.5:
                    scn['sources'][si][m] = 'absent'
    for _ in range(rng.choice([1, 1, 2])):
        stage, kind = rng.choice(FAULTS)
        c07.apply_fault(scn, rng.choice(mods), stage, kind, 0)
    for _ in range(rng.randint(1, 3)):
        table = {}
        for m in mods:
            r = rng.random()
            if r < 0.5:
                table[m] = 'BORROWED %s from %d\n-- %s\n' % (m, len(scn['borrowers']), 'x' * rng.randint(0, 40))
            elif r < 0.62:
                table[m] = 'error'
        scn['borrowers'].append({'genTexts': rng.random() < 0.5, 'kind': rng.choice(['any', 'py']),
                                 'table': table,
                                 # the borrower's reader may find the copy under a case variant of the name
                                 'alias': 'lower' if rng.random() < 0.3 else None})
    for k in ('noDeps', 'genTexts', 'ignoreErrors'):
        if rng.random() < 0.35:
            scn['options'][k] = True
    if rng.random() < 0.2:
        scn['options']['rebuild'] = True
    if rng.random() < 0.3:
        scn['searchers'].append({'table': dict((m, rng.choice(['fresh', 'absent', 'absent']))
                                               for m in mods), 'stub': rng.random() < 0.3})
    # readers may find a module under another file name (case variant): the reported alias differs
    # from the requested name (only without noDeps, where the alias decides what counts as requested)
    if not scn['options'].get('noDeps') and rng.random() < 0.3:
        scn['source_alias'] = 'lower'
        if len(scn['sources']) > 1 and rng.random() < 0.7:
            # a broken copy first, a good one later: the earlier failure must be forgotten
            m = rng.choice(mods)
            scn['sources'][0][m] = rng.choice(['synerr', 'lexerr', 'truncated'])
            scn['sources'][1][m] = 'ok'
    return scn, gname


def case_trace(idx, rng, tier, res):
    scn, gname = build(rng, tier)
    run = orch.execute(scn)

    def V(monitor, detail, **features):
        res.violation(monitor, detail, replay=scn, **features)

    orch.check_borrowing(scn, run, V)
    tr = run['trace']
    calls = tr.select('borrower', 'getData', 'call')
    rets = tr.select('borrower', 'getData', 'ret')
    res.count('borrower_calls', len(calls))
    res.count('borrowed_delivered', len(rets))
    want = bool(scn['options'].get('genTexts'))
    nfail = len([1 for v in run.get('result', {}).values() if v in ('failed', 'missing', 'borrowed')])
    res.count('flavour_skips', nfail * len([b for b in scn['borrowers'] if bool(b['genTexts']) != want]))
    if scn.get('source_alias'):
        res.count('alias_source_scenarios')
    res.cell('A:graph:' + gname, 'A:noDeps=%s,genTexts=%s,ignore=%s' % tuple(
        bool(scn['options'].get(k)) for k in ('noDeps', 'genTexts', 'ignoreErrors')))
    for v in run.get('result', {}).values():
        res.cell('A:status:' + str(v))
    res.sig = harness.stable_hash(scn)
    res.nontrivial = bool(rets)
    if idx % 3000 == 0:
        res.sample = {'part': 'A', 'scenario': scn,
                      'result': dict((k, str(v)) for k, v in run.get('result', {}).items()),
                      'borrower_events': [(e['comp'], e['name'], e['phase']) for e in tr.select('borrower')][:20]}


EXT_POOL = ['', '.py', '.json', '.txt', '.mib', '.PY', '.pyc', '.js']


def case_real(idx, rng, tier, res):
    from pysmi.borrower import AnyFileBorrower, PyFileBorrower
    from pysmi.reader import FileReader
    from pysmi import error
    d = tempfile.mkdtemp(prefix='verif-c19-', dir=env.scratch_root())
    try:
        name = rng.choice(['FOO-MIB', 'Bar-MIB', 'baz'])
        present = rng.sample(EXT_POOL, rng.randint(0, 4))
        sub = rng.random() < 0.3
        base = os.path.join(d, 'sub') if sub else d
        os.makedirs(base, exist_ok=True)
        content = {}
        limit = rng.choice([None, None, 48, 64])
        for ext in present:
            txt = 'content of %s%s #%d\n' % (name, ext, rng.randint(0, 10 ** 6))
            if limit and rng.random() < 0.6:
                txt += 'x' * rng.choice([limit - len(txt) - 1, limit - len(txt), limit - len(txt) + 1, 200])
            with open(os.path.join(base, name + ext), 'w') as f:
                f.write(txt)
            content[name + ext] = txt
        # near misses
        for other in ('X' + name + '.py', name + 'X.json'):
            if rng.random() < 0.3:
                with open(os.path.join(base, other), 'w') as f:
                    f.write('near miss\n')
        kind = rng.choice(['py', 'any-json', 'any-multi', 'any-default'])
        flavour = rng.random() < 0.5
        ask = rng.random() < 0.5
        reader = FileReader(d).setOptions(lowcaseMatching=False)
        if limit:
            reader.setOptions(maxMibSize=limit)     # an over-long copy must be refused, never cut
        if kind == 'py':
            b = PyFileBorrower(reader, genTexts=flavour)
            exts = ['.py']
        elif kind == 'any-json':
            b = AnyFileBorrower(reader, genTexts=flavour).setOptions(exts=['.json'])
            exts = ['.json']
        elif kind == 'any-multi':
            exts = rng.sample(['.json', '.txt', '.js'], 2)
            b = AnyFileBorrower(reader, genTexts=flavour).setOptions(exts=exts)
        else:
            b = AnyFileBorrower(reader, genTexts=flavour)
            exts = None
        try:
            info, data = b.getData(name, genTexts=ask)
            got = ('ok', info.file, data)
        except error.PySmiError as exc:
            got = ('err', type(exc).__name__, None)
        except Exception as exc:
            got = ('other', type(exc).__name__, None)
        cell = {'borrower': kind, 'exts': exts, 'flavour': flavour, 'asked_genTexts': ask, 'maxMibSize': limit,
                'present': sorted(present), 'name': name, 'subdir': sub}
        eligible = [name + e for e in (exts or []) if (name + e) in content]
        if got[0] == 'other':
            res.violation('real_borrower_exception', '%r raised %s' % (cell, got[1]), replay=cell)
        elif flavour != ask:
            if got[0] == 'ok':
                res.violation('real_flavour_mismatch_delivered', '%r delivered %s' % (cell, got[1]), replay=cell)
        elif exts is not None:
            if got[0] == 'ok':
                if got[1] not in eligible:
                    res.violation('real_wrong_extension', '%r delivered %s, eligible %s' % (cell, got[1], eligible),
                                  replay=cell, kind=kind)
                elif got[2] != content[got[1]]:
                    res.violation('real_content', '%r delivered altered content of %s' % (cell, got[1]), replay=cell)
            elif eligible and not (limit and any(len(content[e]) >= limit for e in eligible)):
                res.violation('real_not_delivered', '%r: %s exists but the borrower reported %s' % (
                    cell, eligible, got[1]), replay=cell, kind=kind)
        res.count('real_layer_cells')
        res.count('real_' + got[0])
        res.cell('B:%s:%s' % (kind, got[0]))
        res.sig = harness.stable_hash(cell)
        res.nontrivial = got[0] == 'ok'
        if idx % 3001 == 1:
            res.sample = dict(cell, part='B', outcome=got[:2])
    finally:
        shutil.rmtree(d, ignore_errors=True)


def case_real_compile(idx, rng, tier, res):
    """part B2: the real compiler with real file borrowers and the real file writers (byte-compilation
    as the writer is constructed): a module no source can deliver is borrowed from a directory - the
    stored file is the borrowed copy verbatim, whatever that copy looks like to today's interpreter"""
    from pysmi.compiler import MibCompiler
    from pysmi.reader import FileReader
    from pysmi.reader.callback import CallbackReader
    from pysmi.searcher.stub import StubSearcher
    from pysmi.borrower import AnyFileBorrower, PyFileBorrower
    from pysmi.writer import FileWriter, PyFileWriter
    from vlib import pipeline
    d = tempfile.mkdtemp(prefix='verif-c19c-', dir=env.scratch_root())
    try:
        fmt = rng.choice(['pysnmp', 'pysnmp', 'json'])
        ext = '.py' if fmt == 'pysnmp' else '.json'
        bor, dst = os.path.join(d, 'bor'), os.path.join(d, 'dst')
        os.makedirs(bor)
        flavour = rng.random() < 0.5
        body = rng.choice([
            '# a module compiled long ago\nprint \'loaded\'\nx = 0777L\n',          # Python 2 only
            '# plain\nx = 1\n', 'def broken(:\n', u'# caf\xe9 \u4e16\n', '', '\x00\x01 not text at all',
            '{"not": "python"}\n'])
        with open(os.path.join(bor, 'AA-MIB' + ext), 'w', encoding='utf-8') as f:
            f.write(body)
        texts = dict(pipeline.fixtures())
        how = rng.choice(['absent', 'synerr', 'untyped', 'oidloop'])
        if how != 'absent':
            texts['AA-MIB'] = orch.module_text('AA-MIB', [], 's0', how)
        texts['BB-MIB'] = orch.module_text('BB-MIB', [], 's0', 'ok')
        writer = PyFileWriter(dst) if fmt == 'pysnmp' else FileWriter(dst).setOptions(suffix='.json')
        comp = MibCompiler(pipeline.make_parser('smiV1Relaxed'), pipeline.make_codegen(fmt), writer)
        comp.addSources(CallbackReader(lambda n, c: texts.get(n)))
        comp.addSearchers(StubSearcher(*pipeline.BASE_STUBS))
        rd = FileReader(bor).setOptions(lowcaseMatching=False)
        comp.addBorrowers(PyFileBorrower(rd, genTexts=flavour) if fmt == 'pysnmp'
                          else AnyFileBorrower(rd, genTexts=flavour).setOptions(exts=['.json']))
        cell = {'format': fmt, 'defect': how, 'borrowed_text': body[:40], 'flavour': flavour}
        try:
            r = comp.compile('AA-MIB', 'BB-MIB', genTexts=flavour, ignoreErrors=rng.random() < 0.5)
        except Exception as exc:
            res.violation('real_compile_raised', '%r raised %r' % (cell, exc), replay=cell)
            return
        res.count('real_compile_borrows')
        try:
            with open(os.path.join(dst, 'AA-MIB' + ext), encoding='utf-8') as f:
                onfile = f.read()
        except OSError:
            onfile = None
        if r.get('AA-MIB') != 'borrowed':
            res.violation('real_not_borrowed', '%r: AA-MIB is %r (%s)' % (cell, str(r.get('AA-MIB')),
                                                                          getattr(r.get('AA-MIB'), 'error', None)), replay=cell)
        elif onfile != body:
            res.violation('real_borrowed_not_verbatim', '%r: stored %r' % (cell, None if onfile is None else onfile[:60]),
                          replay=cell)
        if r.get('BB-MIB') != 'compiled':
            res.violation('real_neighbour_blocked', '%r: BB-MIB is %r although AA-MIB could be borrowed' % (
                cell, str(r.get('BB-MIB'))), replay=cell)
        res.cell('B2:%s:%s' % (fmt, how))
        res.sig = harness.stable_hash(cell)
        res.nontrivial = True
    finally:
        shutil.rmtree(d, ignore_errors=True)


def run_case(idx, rng, tier, res):
    if idx % 25 == 14:
        return case_real_compile(idx, rng, tier, res)
    if idx % 5 == 4:
        case_real(idx, rng, tier, res)
    else:
        case_trace(idx, rng, tier, res)


def extra(tier, seed, emit):
    """part C, the command-line path: mibdump with several --mib-borrower directories given in an order
    that is not the sorted one, both flavours mixed in; a missing / broken module must come out as the
    verbatim copy of the first borrower (in the order given) whose flavour matches and that holds it"""
    import random
    import subprocess
    from vlib import pipeline
    res = harness.Result(-1)
    res.evals = 0
    rng = random.Random('c19-cli-%s' % seed)
    base = tempfile.mkdtemp(prefix='verif-c19cli-', dir=env.scratch_root())
    try:
        for run in range(12 if tier == "quick" else 60):
            root = os.path.join(base, 'r%d' % run)
            src, dst = os.path.join(root, 'src'), os.path.join(root, 'dst')
            os.makedirs(src)
            for b in orch.BASE:
                with open(os.path.join(src, b), 'w') as f:
                    f.write(pipeline.fixtures()[b])
            how = rng.choice(['absent', 'synerr', 'untyped'])
            if how != 'absent':
                with open(os.path.join(src, 'AA-MIB'), 'w') as f:
                    f.write(orch.module_text('AA-MIB', [], 'disk', how))
            with open(os.path.join(src, 'BB-MIB'), 'w') as f:
                f.write(orch.module_text('BB-MIB', [], 'disk', 'ok'))
            gt = rng.random() < 0.5
            fmt = rng.choice(['json', 'pysnmp'])
            ext = {'json': '.json', 'pysnmp': '.py'}[fmt]
            # directory names chosen so that sorting them reverses / scrambles the order given
            names = rng.sample(['zz-vendor', 'mm-mirror', 'aa-archive', 'kk-cache'], rng.randint(2, 4))
            args = ['--mib-source=' + src, '--destination-directory=' + dst, '--destination-format=' + fmt]
            first = None
            # mibdump gives a borrower the flavour current when its option is read: those named before
            # --generate-mib-texts are without-texts repositories, those after it with-texts ones
            flagpos = rng.randint(0, len(names)) if gt else None
            for bi, bn in enumerate(names):
                if flagpos == bi:
                    args.append('--generate-mib-texts')
                flavour = gt and bi >= flagpos
                bdir = os.path.join(root, bn)
                os.makedirs(bdir)
                holds = rng.random() < 0.7
                text = ('BORROWED AA-MIB from %s\n' if fmt == 'json' else '# borrowed AA-MIB from %s\n') % bn
                if holds:
                    with open(os.path.join(bdir, 'AA-MIB' + ext), 'w') as f:
                        f.write(text)
                args.append('--mib-borrower=' + bdir)
                if holds and bool(flavour) == gt and first is None:
                    first = (bn, text)
            if flagpos == len(names):
                args.append('--generate-mib-texts')
            args += ['--no-python-compile', 'AA-MIB', 'BB-MIB']
            e = env.child_env()
            e['PYTHONPATH'] = env.REPO
            e['HOME'] = root
            p = subprocess.run([env.PYTHON, os.path.join(env.REPO, 'scripts', 'mibdump.py')] + args, env=e,
                               stdout=subprocess.PIPE, stderr=subprocess.PIPE, timeout=300, cwd=root)
            err = p.stderr.decode('utf-8', 'replace')
            res.evals += 1
            res.count('cli_borrow_runs')
            cell = {'borrowers': names, 'args': [a.replace(root, '.') for a in args[3:]], 'genTexts': gt,
                    'format': fmt, 'defect': how, 'expected_from': first and first[0]}
            try:
                with open(os.path.join(dst, 'AA-MIB' + ext)) as f:
                    onfile = f.read()
            except OSError:
                onfile = None
            if first is None:
                res.count('cli_nothing_to_borrow')
                if onfile is not None:
                    res.violation('cli_borrowed_unexpectedly', 'no borrower of the requested flavour holds AA-MIB, yet '
                                  '%s was stored: %r\n%r' % ('AA-MIB' + ext, onfile[:60], cell), replay=cell, clause='cli')
            else:
                res.count('cli_borrow_expected')
                if onfile is None:
                    res.violation('cli_not_borrowed', 'AA-MIB (%s) was not stored although %s holds a copy\n%r\n%s' % (
                        how, first[0], cell, err[-300:]), replay=cell, clause='cli')
                elif onfile != first[1]:
                    res.violation('cli_borrower_order', 'AA-MIB stored as %r, the first matching borrower in the order '
                                  'given is %s\n%r' % (onfile[:60], first[0], cell), replay=cell, clause='cli')
            if 'Pre-compiled MIBs borrowed: AA-MIB' not in err.replace('Would be ', '') and first is not None:
                res.violation('cli_borrow_not_reported', 'AA-MIB not listed as borrowed\n%r\n%s' % (cell, err[-300:]),
                              replay=cell, clause='cli')
    finally:
        shutil.rmtree(base, ignore_errors=True)
    res.sig = 'cli'
    res.nontrivial = True
    emit(res)
