#!/venv/bin/python
"""Mechanical mutation sampling - a complement to the hand-made seeded changes.

    tools/automut.py <n> [--seed S] [--files pat,pat] [--out DIR] [--jobs J]

Draws n single-token mutations (comparison / boolean / constant / statement-deletion operators) on lines
of /repo/pysmi and /repo/scripts that the quick checks execute (line reach from `tools/reach.py run`),
applies each to a scratch worktree (never to /repo), discards those the baseline tests kill or that do
not import, runs the checks mapped to the mutated file (VERIF_REPO override, scratch evidence) and
appends one JSON line per mutant to <out>/results.jsonl: survivors are candidates for reach gaps (or
equivalent mutants) to be triaged by hand.  Nothing here is part of a registered check."""
import json
import os
import random
import re
import shutil
import subprocess
import sys
import tempfile
import time
from concurrent.futures import ThreadPoolExecutor

HERE = os.path.dirname(os.path.dirname(os.path.abspath(__file__)))
REPO = '/repo'
LINES = os.environ.get('REACH_DIR', '/dev/shm/verif-reach') + '/lines'

CHECKS = [
    ('pysmi/compiler.py', ['C07', 'C08', 'C09', 'C10', 'C19', 'C12', 'C13', 'C18', 'C20']),
    ('pysmi/codegen/intermediate.py', ['C01', 'C03', 'C05', 'C06', 'C15', 'C16', 'C18', 'C04']),
    ('pysmi/codegen/symtable.py', ['C01', 'C05', 'C06', 'C16', 'C12', 'C04']),
    ('pysmi/codegen/pysnmp.py', ['C04', 'C05', 'C06', 'C15', 'C01']),
    ('pysmi/codegen/jsondoc.py', ['C03', 'C18', 'C01']),
    ('pysmi/codegen/base.py', ['C16', 'C01', 'C05']),
    ('pysmi/parser/smi.py', ['C02', 'C17', 'C11', 'C05', 'C06']),
    ('pysmi/lexer/smi.py', ['C02', 'C11', 'C17', 'C15']),
    ('pysmi/reader/', ['C14', 'C20']),
    ('pysmi/searcher/', ['C10', 'C20']),
    ('pysmi/writer/', ['C13', 'C20', 'C18']),
    ('pysmi/borrower/', ['C19', 'C20']),
    ('pysmi/mibinfo.py', ['C07', 'C18', 'C12']),
    ('scripts/mibdump.py', ['C20', 'C19', 'C15', 'C12']),
    ('scripts/mibcopy.py', ['C20']),
]

OPS = [
    (r'==', '!='), (r'!=', '=='), (r'>=', '>'), (r'<=', '<'), (r'(?<![<>=!-])>(?![=>])', '>='),
    (r'(?<![<>=!])<(?![=<])', '<='), (r'\band\b', 'or'), (r'\bor\b', 'and'), (r'\bnot ', ''),
    (r'\bTrue\b', 'False'), (r'\bFalse\b', 'True'), (r'\bis not\b', 'is'), (r'\bnot in\b', 'in'),
    (r'(?<![\w.])0(?![\w.])', '1'), (r'(?<![\w.])1(?![\w.])', '2'), (r'(?<![\w.])1(?![\w.])', '0'),
    (r'\[0\]', '[-1]'), (r'\[-1\]', '[0]'), (r'\[1\]', '[0]'), (r'\+ 1\b', '- 1'), (r'- 1\b', '+ 1'),
    (r'\bsorted\(', 'list('), (r'\bcontinue\b', 'pass'), (r'\bbreak\b', 'continue'),
    (r'\.append\(', '.insert(0, '), (r'\bmin\(', 'max('), (r'\bmax\(', 'min('),
    (r'\.lower\(\)', '.upper()'), (r'\.upper\(\)', '.lower()'), (r'\bany\(', 'all('),
]


def reach_lines():
    seen = {}
    if os.path.isdir(LINES):
        for fn in os.listdir(LINES):
            for l in open(os.path.join(LINES, fn)):
                f, n = l.rsplit(':', 1)
                seen.setdefault(f, set()).add(int(n))
    return seen


def candidates(patterns):
    seen = reach_lines()
    for sc in ('scripts/mibdump.py', 'scripts/mibcopy.py'):       # run as subprocesses: no line reach, take all
        seen[sc] = set(range(100, len(open(os.path.join(REPO, sc)).read().split('\n'))))
    out = []
    for rel, lines in seen.items():
        if patterns and not any(p in rel for p in patterns):
            continue
        if not any(rel.startswith(k) for k, _c in CHECKS):
            continue
        src = open(os.path.join(REPO, rel)).read().split('\n')
        for n in sorted(lines):
            if n < 1 or n > len(src):
                continue
            line = src[n - 1]
            st = line.strip()
            if not st or st.startswith('#') or st.startswith('"""') or 'debug.logger' in line or st.startswith('def ') \
                    or st.startswith('class ') or st.startswith('import ') or st.startswith('from '):
                continue
            code = line.split('  #')[0]
            for oi, (rx, rep) in enumerate(OPS):
                for m in re.finditer(rx, code):
                    # keep out of string literals (roughly): even number of quotes before the match
                    pre = code[:m.start()]
                    if pre.count("'") % 2 or pre.count('"') % 2:
                        continue
                    out.append((rel, n, oi, m.start(), m.end()))
            # statement deletion for simple statements
            if re.match(r'^\s*(self\.)?[\w\[\]\.\'"]+(\[[^\]]*\])? (\+?=) ', line) or re.match(r'^\s*[\w\.]+\([^()]*\)\s*$', line) \
                    or re.match(r'^\s*del ', line):
                if not line.rstrip().endswith(('(', ',', '[', '{', '\\')):
                    out.append((rel, n, -1, 0, 0))
    return out


def mutate(rel, n, oi, a, b, tree):
    p = os.path.join(tree, rel)
    src = open(p).read().split('\n')
    line = src[n - 1]
    if oi == -1:
        indent = line[:len(line) - len(line.lstrip())]
        new = indent + 'pass'
        desc = 'delete statement'
    else:
        new = line[:a] + OPS[oi][1] + line[b:]
        desc = '%r -> %r' % (line[a:b], OPS[oi][1])
    src[n - 1] = new
    open(p, 'w').write('\n'.join(src))
    return line.strip(), new.strip(), desc


def checks_for(rel):
    for k, c in CHECKS:
        if rel.startswith(k):
            return c
    return []


def run_one(job):
    k, (rel, n, oi, a, b), out = job
    base = tempfile.mkdtemp(prefix='automut-', dir='/tmp')
    tree = os.path.join(base, 'tree')
    rec = {'k': k, 'file': rel, 'line': n}
    try:
        subprocess.check_call(['git', '-C', REPO, 'worktree', 'add', '-q', '--detach', tree, 'HEAD'])
        old, new, desc = mutate(rel, n, oi, a, b, tree)
        rec.update(old=old, new=new, op=desc)
        env = dict(os.environ, PYTHONPATH=tree)
        r = subprocess.run(['/venv/bin/python', '-c', 'import pysmi.compiler, pysmi.codegen, pysmi.parser.smi, pysmi.reader, '
                            'pysmi.searcher, pysmi.writer, pysmi.borrower; import py_compile; '
                            'py_compile.compile(%r, doraise=True)' % os.path.join(tree, rel)],
                           env=env, cwd=tree, capture_output=True)
        if r.returncode != 0:
            rec['verdict'] = 'does_not_import'
            return rec
        t = subprocess.run(['/venv/bin/python', '-m', 'pytest', '-q', '-p', 'no:cacheprovider',
                            '--continue-on-collection-errors', '--timeout=600'], cwd=tree, env=env, capture_output=True, text=True)
        tail = (t.stdout.strip().splitlines() or [''])[-1]
        if not tail.startswith('86 passed'):
            rec['verdict'] = 'killed_by_baseline_tests'
            rec['tests'] = tail[:80]
            return rec
        diff = subprocess.run(['git', '-C', tree, 'diff'], capture_output=True, text=True).stdout
        rec['diff'] = diff
        env2 = dict(os.environ, VERIF_REPO=tree, VERIF_EVIDENCE_DIR=os.path.join(base, 'ev'),
                    VERIF_REPLAY_DIR=os.path.join(base, 'rp'))
        rec['checks'] = {}
        rec['verdict'] = 'survived'
        for c in checks_for(rel):
            t0 = time.time()
            p = subprocess.run(['/venv/bin/python', os.path.join(HERE, 'run.py'), c, '--tier', 'quick'], env=env2, cwd=HERE,
                               capture_output=True, text=True)
            mons = sorted(set(l.split('monitor=')[1].split(' ')[0] for l in p.stdout.splitlines()
                              if l.strip().startswith('monitor=')))
            rec['checks'][c] = [{0: 'held', 1: 'VIOLATION', 2: 'inconclusive'}.get(p.returncode, 'rc%d' % p.returncode), mons,
                                round(time.time() - t0)]
            if p.returncode == 1:
                rec['verdict'] = 'caught'
                rec['caught_by'] = c
                break
        return rec
    except Exception as exc:
        rec['verdict'] = 'harness_error'
        rec['error'] = repr(exc)
        return rec
    finally:
        subprocess.run(['git', '-C', REPO, 'worktree', 'remove', '--force', tree], capture_output=True)
        shutil.rmtree(base, ignore_errors=True)
        with open(os.path.join(out, 'results.jsonl'), 'a') as f:
            f.write(json.dumps(rec) + '\n')
        print('%3d %-10s %s:%d  %s | %s' % (k, rec.get('verdict'), rel, n, rec.get('op'), rec.get('caught_by', '')), flush=True)


def main():
    args = sys.argv[1:]
    n = int(args[0])
    seed = int(args[args.index('--seed') + 1]) if '--seed' in args else 0
    pats = args[args.index('--files') + 1].split(',') if '--files' in args else []
    out = args[args.index('--out') + 1] if '--out' in args else '/tmp/automut-out'
    jobs = int(args[args.index('--jobs') + 1]) if '--jobs' in args else 2
    os.makedirs(out, exist_ok=True)
    cands = candidates(pats)
    rng = random.Random(seed)
    rng.shuffle(cands)
    # spread over files: at most n/6 per file
    per = {}
    chosen = []
    for c in cands:
        if per.get(c[0], 0) >= max(3, n // 5):
            continue
        per[c[0]] = per.get(c[0], 0) + 1
        chosen.append(c)
        if len(chosen) >= n:
            break
    print('%d candidate mutations on executed lines, %d drawn' % (len(cands), len(chosen)), flush=True)
    with ThreadPoolExecutor(jobs) as ex:
        list(ex.map(run_one, [(k, c, out) for k, c in enumerate(chosen)]))


if __name__ == '__main__':
    main()
