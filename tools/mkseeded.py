#!/venv/bin/python
"""Collect confirmed property-breaking changes produced by sub-agents into /verif/seeded/.

Reads /tmp/mut/<ID>/out/<k>/{patch.diff,demo.py,notes.md} and the evaluation logs written by
tools/evalmut.sh (/tmp/mut/eval_round*.log, later lines override earlier ones) and writes
seeded/<ID>-<k>/{patch.diff, demo.py, notes.md, meta.json}."""
import glob
import json
import os
import re
import shutil

HERE = os.path.dirname(os.path.dirname(os.path.abspath(__file__)))


def parse_logs():
    res = {}
    root = os.environ.get('MUTROOT', '/tmp/mut')
    for log in sorted(glob.glob(root + '/eval_round*.log')) + sorted(glob.glob(root + '/retest*.log')):
        cur = None
        for line in open(log, errors='replace'):
            m = re.match(r'== (C\d\d)/(\d): (.*)', line)
            if m:
                cur = (m.group(1), m.group(2))
                res.setdefault(cur, {'checks': {}})
                if m.group(3).strip() != 'x' or 'title' not in res[cur]:
                    res[cur]['title'] = m.group(3).strip()[:200]
                stage = None
                continue
            if cur is None:
                continue
            r = res[cur]
            if 'demo on the unchanged tree' in line:
                stage = 'clean'
            elif 'demo with the patch' in line:
                stage = 'patched'
            m = re.match(r'\s+exit (\d+)', line)
            if m and stage:
                r['demo_' + stage] = int(m.group(1))
                stage = None
            m = re.match(r'\s+(\d+ passed.*)', line)
            if m:
                r['tests'] = m.group(1).strip()
            m = re.match(r'\s+(C\d\d) (held|VIOLATION|inconclusive)\s+\d+s ?(.*)', line)
            if m:
                r['checks'][m.group(1)] = (m.group(2), m.group(3).strip())
    return res


def main():
    logs = parse_logs()
    props = dict((json.loads(l)['id'], json.loads(l)) for l in open(os.path.join(HERE, 'properties.jsonl')))
    out_root = os.path.join(HERE, 'seeded')
    kept = []
    for (pid, k), r in sorted(logs.items()):
        src = '%s/%s/out/%s' % (os.environ.get('MUTROOT', '/tmp/mut'), pid, k)
        if not os.path.exists(os.path.join(src, 'patch.diff')):
            continue
        confirmed = r.get('demo_clean') == 0 and r.get('demo_patched', 0) != 0 and \
            r.get('tests', '').startswith('86 passed')
        if not confirmed:
            print('NOT CONFIRMED', pid, k, r)
            continue
        dst = os.path.join(out_root, '%s-%s%s' % (pid, os.environ.get('MUTTAG', ''), k))
        os.makedirs(dst, exist_ok=True)
        for fn in ('patch.diff', 'demo.py', 'notes.md'):
            shutil.copy(os.path.join(src, fn), os.path.join(dst, fn))
        notes = open(os.path.join(src, 'notes.md'), errors='replace').read()
        caught = sorted(c for c, (v, mons) in r['checks'].items() if v == 'VIOLATION')
        meta = {
            'property': pid,
            'property_title': props[pid]['title'],
            'origin': 'independent sub-agent given only the property text and a scratch worktree (no access to /verif)',
            'summary': r.get('title', ''),
            'needs_to_manifest': extract_needs(notes),
            'confirmed': {
                'demo_exit_on_unchanged_tree': r.get('demo_clean'),
                'demo_exit_with_patch': r.get('demo_patched'),
                'baseline_tests_with_patch': r.get('tests'),
                'how': 'tools/evalmut.sh: demo run with PYTHONPATH=/repo and with PYTHONPATH=<scratch worktree + patch>; '
                       'pytest in the patched worktree; checks via tools/mutest.py (VERIF_REPO=<patched worktree>)',
            },
            'quick_checks_run': dict((c, {'verdict': v, 'monitors': mons}) for c, (v, mons) in sorted(r['checks'].items())),
            'caught_by': caught,
        }
        with open(os.path.join(dst, 'meta.json'), 'w') as f:
            json.dump(meta, f, indent=1)
            f.write('\n')
        kept.append((pid, k, caught))
    for pid, k, caught in kept:
        print('%s-%s caught by %s' % (pid, k, ' '.join(caught) or 'NOTHING'))
    print(len(kept), 'seeded changes kept')


def extract_needs(notes):
    m = re.search(r'(?is)(needs?[^\n]*manifest[^\n]*|what it needs[^\n]*)\n(.*?)(\n#|\n\*\*|\Z)', notes)
    if m:
        return re.sub(r'\s+', ' ', m.group(2)).strip()[:700]
    return re.sub(r'\s+', ' ', notes[:500])


if __name__ == '__main__':
    main()
