#!/venv/bin/python
"""Rewrites the seeded-change table at the end of DESIGN.md section 8 from seeded/*/meta.json."""
import glob
import json
import os
import re

HERE = os.path.dirname(os.path.dirname(os.path.abspath(__file__)))


def main():
    rows = []
    for d in sorted(glob.glob(os.path.join(HERE, 'seeded', 'C*'))):
        m = json.load(open(os.path.join(d, 'meta.json')))
        summ = re.sub(r'^#+\s*', '', m['summary'])
        summ = re.sub(r'^(C\d\d )?(seeded )?(change|mutant|mutation|Change) \d+\s*[-:]*\s*', '', summ).strip()
        summ = re.sub(r'\s+(File / function|## Change|## The change|\*\*File|`[A-Za-z]+\.[a-z_A-Z]+` \().*$', '', summ)[:150].replace('|', '/')
        own = m['property'] in m['caught_by']
        rows.append('| %s | %s | %s%s |' % (os.path.basename(d), summ, ' '.join(m['caught_by']),
                                           '' if own else ' (not by %s itself, see text)' % m['property']))
    p = os.path.join(HERE, 'DESIGN.md')
    s = open(p).read()
    head = '| seeded change | mechanism | caught by (quick tier) |\n|---|---|---|\n'
    i = s.index(head) + len(head)
    j = s.index('\n\n', i)
    s = s[:i] + '\n'.join(rows) + s[j:]
    open(p, 'w').write(s)
    print(len(rows), 'rows')


if __name__ == '__main__':
    main()
