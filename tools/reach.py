#!/venv/bin/python
"""Which functions of /repo/pysmi does no check enter?

    tools/reach.py run     run every quick check with VERIF_COVER_DUMP (evidence to a scratch dir)
    tools/reach.py report  union of the dumps vs every function defined under pysmi/ (ast)
"""
import ast
import json
import os
import subprocess
import sys

HERE = os.path.dirname(os.path.dirname(os.path.abspath(__file__)))
REPO = os.environ.get('VERIF_REPO', '/repo')
DUMP = os.environ.get('REACH_DIR', '/dev/shm/verif-reach')


def defined():
    out = {}
    for base, _, files in os.walk(os.path.join(REPO, 'pysmi')):
        for fn in files:
            if not fn.endswith('.py'):
                continue
            p = os.path.join(base, fn)
            rel = p[len(REPO) + 1:]
            tree = ast.parse(open(p).read())

            def walk(node, prefix):
                for ch in ast.iter_child_nodes(node):
                    if isinstance(ch, (ast.FunctionDef, ast.AsyncFunctionDef)):
                        q = prefix + ch.name
                        out['%s:%s' % (rel, q)] = ch.lineno
                        walk(ch, q + '.<locals>.')
                    elif isinstance(ch, ast.ClassDef):
                        walk(ch, prefix + ch.name + '.')
                    else:
                        walk(ch, prefix)
            walk(tree, '')
    return out


def main():
    if sys.argv[1] == 'run':
        ids = sys.argv[2:] or ['C%02d' % i for i in range(1, 21)]
        env = dict(os.environ, VERIF_COVER_DUMP=DUMP, VERIF_EVIDENCE_DIR=DUMP + '/ev', VERIF_REPLAY_DIR=DUMP + '/rp')
        for i in ids:
            r = subprocess.run(['/venv/bin/python', os.path.join(HERE, 'run.py'), i, '--tier', 'quick'],
                               env=env, capture_output=True, text=True)
            print(i, r.returncode, r.stdout.strip().splitlines()[-1] if r.stdout.strip() else r.stderr[-200:])
    else:
        seen = {}
        for fn in sorted(os.listdir(DUMP)):
            if fn.endswith('.json'):
                for k, v in json.load(open(os.path.join(DUMP, fn))).items():
                    seen.setdefault(k, {})[fn[:-5]] = v
        d = defined()
        miss = sorted(k for k in d if k not in seen)
        print('defined %d, entered by some check %d, never entered %d' % (len(d), len(d) - len(miss), len(miss)))
        for k in miss:
            print('  ', k, d[k])
        if '-v' in sys.argv:
            for k in sorted(seen):
                if len(seen[k]) <= 1:
                    print('single', k, seen[k])


if __name__ == '__main__':
    main()
