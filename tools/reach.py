#!/venv/bin/python
"""Which functions of /repo/pysmi does no check enter?

    tools/reach.py run     run every quick check with VERIF_COVER_DUMP (evidence to a scratch dir)
    tools/reach.py report  union of the dumps vs every function defined under pysmi/ (ast)
    tools/reach.py lines   executable lines of pysmi/ never executed by any quick check
"""
import ast
import json
import os
import subprocess
import sys

HERE = os.path.dirname(os.path.dirname(os.path.abspath(__file__)))
REPO = os.environ.get('VERIF_REPO', '/repo')
DUMP = os.environ.get('REACH_DIR', '/dev/shm/verif-reach')


def defined():
    out = {}
    for base, _, files in os.walk(os.path.join(REPO, 'pysmi')):
        for fn in files:
            if not fn.endswith('.py'):
                continue
            p = os.path.join(base, fn)
            rel = p[len(REPO) + 1:]
            tree = ast.parse(open(p).read())

            def walk(node, prefix):
                for ch in ast.iter_child_nodes(node):
                    if isinstance(ch, (ast.FunctionDef, ast.AsyncFunctionDef)):
                        q = prefix + ch.name
                        out['%s:%s' % (rel, q)] = ch.lineno
                        walk(ch, q + '.<locals>.')
                    elif isinstance(ch, ast.ClassDef):
                        walk(ch, prefix + ch.name + '.')
                    else:
                        walk(ch, prefix)
            walk(tree, '')
    return out


def executable_lines(path):
    out = set()

    def walk(co):
        for _s, _e, ln in co.co_lines():
            if ln is not None:
                out.add(ln)
        for c in co.co_consts:
            if hasattr(c, 'co_lines'):
                walk(c)
    walk(compile(open(path).read(), path, 'exec'))
    return out


def lines_report():
    seen = {}
    ldir = DUMP + '/lines'
    for fn in os.listdir(ldir):
        for l in open(os.path.join(ldir, fn)):
            f, n = l.rsplit(':', 1)
            seen.setdefault(f, set()).add(int(n))
    tot_e = tot_s = 0
    for base, _, files in sorted(os.walk(os.path.join(REPO, 'pysmi'))):
        for fn in sorted(files):
            if not fn.endswith('.py'):
                continue
            p = os.path.join(base, fn)
            rel = p[len(REPO) + 1:]
            ex = executable_lines(p)
            sn = seen.get(rel, set()) & ex
            tot_e += len(ex)
            tot_s += len(sn)
            miss = sorted(ex - sn)
            if not miss:
                continue
            # compress into ranges
            rs, a, b = [], miss[0], miss[0]
            for n in miss[1:]:
                if n <= b + 2:
                    b = n
                else:
                    rs.append((a, b)); a = b = n
            rs.append((a, b))
            print('%-36s %4d/%4d  missing: %s' % (rel, len(sn), len(ex), ' '.join('%d-%d' % r if r[0] != r[1] else str(r[0]) for r in rs)))
    print('total executable lines %d, executed by some quick check %d' % (tot_e, tot_s))


def main():
    if sys.argv[1] == 'lines':
        return lines_report()
    if sys.argv[1] == 'run':
        ids = sys.argv[2:] or ['C%02d' % i for i in range(1, 21)]
        os.makedirs(DUMP + '/lines', exist_ok=True)
        env = dict(os.environ, VERIF_COVER_DUMP=DUMP, VERIF_LINE_COVER=DUMP + '/lines', VERIF_EVIDENCE_DIR=DUMP + '/ev', VERIF_REPLAY_DIR=DUMP + '/rp')
        for i in ids:
            r = subprocess.run(['/venv/bin/python', os.path.join(HERE, 'run.py'), i, '--tier', 'quick'],
                               env=env, capture_output=True, text=True)
            print(i, r.returncode, r.stdout.strip().splitlines()[-1] if r.stdout.strip() else r.stderr[-200:])
    else:
        seen = {}
        for fn in sorted(os.listdir(DUMP)):
            if fn.endswith('.json'):
                for k, v in json.load(open(os.path.join(DUMP, fn))).items():
                    seen.setdefault(k, {})[fn[:-5]] = v
        d = defined()
        miss = sorted(k for k in d if k not in seen)
        print('defined %d, entered by some check %d, never entered %d' % (len(d), len(d) - len(miss), len(miss)))
        for k in miss:
            print('  ', k, d[k])
        if '-v' in sys.argv:
            for k in sorted(seen):
                if len(seen[k]) <= 1:
                    print('single', k, seen[k])


if __name__ == '__main__':
    main()
