#!/bin/bash
# usage: evalmut.sh <ID> <k> [checks...]   - confirm a sub-agent's change and run checks against it
ID=$1; K=$2; shift 2
D=${MUTROOT:-/tmp/mut}/$ID/out/$K
echo "== $ID/$K: $(head -c 300 $D/notes.md | head -3 | tr '\n' ' ')"
echo "-- demo on the unchanged tree (expect 0):"
( cd /tmp && PYTHONPATH=/repo timeout 300 /venv/bin/python $D/demo.py >/tmp/evalmut.$$.out 2>&1; echo "   exit $?"; tail -2 /tmp/evalmut.$$.out | sed 's/^/   /' )
T=$(mktemp -d /tmp/evalmut-XXXX)
git -C /repo worktree add -q --detach $T/tree HEAD
if git -C $T/tree apply --whitespace=nowarn $D/patch.diff 2>/tmp/evalmut.$$.err; then
  echo "-- demo with the patch (expect non-zero):"
  ( cd /tmp && PYTHONPATH=$T/tree timeout 300 /venv/bin/python $D/demo.py >/tmp/evalmut.$$.out 2>&1; echo "   exit $?"; tail -3 /tmp/evalmut.$$.out | sed 's/^/   /' )
  echo "-- baseline tests with the patch:"
  ( cd $T/tree && PYTHONPATH=$T/tree timeout 900 /venv/bin/python -m pytest -q -p no:cacheprovider --continue-on-collection-errors 2>&1 | tail -1 | sed 's/^/   /' )
else
  echo "PATCH DOES NOT APPLY: $(cat /tmp/evalmut.$$.err | head -3)"
fi
git -C /repo worktree remove --force $T/tree; rm -rf $T /tmp/evalmut.$$.*
echo "-- checks:"
/venv/bin/python /verif/tools/mutest.py $D/patch.diff "$@" 2>&1 | sed 's/^/   /'
