#!/venv/bin/python
"""Regenerates /verif/MANIFEST.json from the table below + the check modules present."""
import json
import os
import sys

HERE = os.path.dirname(os.path.dirname(os.path.abspath(__file__)))
sys.path.insert(0, HERE)

PY = '/venv/bin/python'
CHECKS = {
    # id: (category, technique, level text, level note, design section)
    'C01': ('exploration', 'runtime monitor: generator-carried ground-truth OIDs vs JSON / executed pysnmp / MibStatus of real compile() runs',
            'Held on K generated module sets (counts in evidence): every OID-bearing node of every set is compared in three outputs of the real compiler against the OID the generator attached when it built the tree. Exploration, not proof: reach comes from seeded diversity (tree shapes, forward/imported parents, spellings, kinds).',
            'Trusted: the generator\'s own OID arithmetic (parent + arcs), hand-written base-module fixtures, pysnmp 7.1.29 executing the generated Python, json.loads.', '5/C01'),
    'C07': ('fault_enumeration', 'runtime monitor: offline trace checker (invariants I1-I7 + executable orchestration model) over the component-boundary event log of real compile() runs with injected faults',
            'Every single-fault placement on 9 canonical import graphs x 12 option sets is enumerated, then random multi-fault scenarios; each run of the real MibCompiler over recording doubles is judged by trace invariants and a reference model of the documented orchestration. Fault enumeration over the component boundary, not over lines inside components.',
            'Trusted: the doubles raise only package exceptions; the 90-line reference model of the documented orchestration; real parser / JsonCodeGen / borrower classes are used unmodified.', '5/C07'),
    'C08': ('exploration', 'runtime monitor: offline checker of the fetch/parse event log (closure, insertion-order fetch sequences, first-holder text identity, logical progress bound)',
            'Random import digraphs (cycles, self loops, multi-module files) x 1-4 sources holding tagged copies; the trace of each real compile() is checked offline. Termination is decided on logical counters, never on wall-clock.',
            'Trusted: source/parser/writer doubles record faithfully; unique per-source tags identify which copy was compiled.', '5/C08'),
    'C09': ('fault_enumeration', 'runtime monitor: trace checker over writer events and statuses under enumerated failure placements',
            'Every placement of each failure kind named by the property on every module of the canonical graphs x option sets x borrowers, plus random multi-failure scenarios; any putData event or non-unprocessed built module while a failure remains is a violation.',
            'Trusted: as C07; writer failures are deliberately out of scope (not in the statement).', '5/C09'),
    'C10': ('exploration', 'runtime monitor: searcher-event trace checker (part A) + reference predicate over generated directories for the real file searchers (part B)',
            'Part A judges consultation order, untouched status and absence of generation from the trace; part B compares the real AnyFile/PyFile/PyPackage/Stub searchers with a 6-line predicate over a generated temp directory on a grid of mtimes around equality.',
            'Trusted: os.utime sets the mtimes the searchers read; age-based doubles honour rebuild like the real ones.', '5/C10'),
    'C19': ('fault_enumeration', 'runtime monitor: borrow-event trace checker + reference extension filter over real borrower/reader directories',
            'Failure placements x borrower lists (flavours, holdings, errors) x noDeps/genTexts/ignoreErrors/searchers; the trace shows who was offered to which borrower in which order and what was written; part B drives the real PyFileBorrower/AnyFileBorrower over real directories.',
            'Trusted: as C07; real AnyFileBorrower/PyFileBorrower wrap the recording reader so the real flavour check runs.', '5/C19'),
    'C13': ('fault_enumeration', 'runtime monitor: in-process fault injection at every discovered system-call site of putData() (os/tempfile/py_compile/open proxies) + directory-snapshot oracle; audit-hook filesystem sanitizer for dry runs; concurrent writers with self-describing payloads',
            'For every writer configuration a discovery run lists the call sites, each site is re-run with each applicable fault kind (errno, error-after-effect, genuine short write); dry-run windows are watched by a sys.addaudithook sanitizer with positive control; 4-8 concurrent writer processes are polled by a reader. Crash points (SIGKILL at each syscall) are syscall-granular and in the thorough tier only.',
            'Trusted: writer modules reach the OS through their module globals (otherwise the discovery floors make the run inconclusive); one fault per execution.', '5/C13'),
    'C14': ('exploration', 'runtime monitor: reference variant sets (allowed superset / promised subset, written from the docs) over generated directory trees and nested ZIP archives; URL dispatch table',
            'Random trees and archives (nesting <=3, duplicate basenames, near-miss names, invalid UTF-8, .index files) x all settings of the four matching options; each lookup of the real FileReader / ZipReader is judged for soundness (file is a variant; exact decoded content; mtime of that file) and completeness (not-found only when no promised variant exists).',
            'Trusted: os.utime / zipfile date_time give the mtimes; the two reference variant sets encode docs/mibdump.rst.', '5/C14'),
    'C18': ('exploration', 'runtime monitor: component-wise cover checker on int tuples over histories of incremental index builds (genIndex and MibCompiler.buildIndex with a real FileWriter)',
            'Histories of 1-5 builds over random results with arcs sharing decimal prefixes; after every build the cover, listing, no-foreign-listing, monotonic-merge and idempotent re-index conditions are evaluated on the parsed index.',
            'Trusted: json.loads; results are built with the compiler\'s own MibStatus.setOptions.', '5/C18'),
    'C20': ('exploration', 'runtime monitor: subprocess runs of mibdump.py / mibcopy.py judged by exit code, the tool\'s own parsed report, directory snapshots and an inotify event stream (dry runs), for all permutations of mibcopy sources',
            'On-disk sets with healthy / missing / broken members and alias files x formats x option combinations; mibcopy is run for every permutation of 2-4 source arguments. Exploration over generated sets; each run is a real CLI process.',
            'Trusted: the fixed report headings; inotifywait delivers events (proved per window by a probe file and by positive-control runs).', '5/C20'),
    'C02': ('exploration', 'runtime monitor: model-derived expected tree + metamorphic layout invariance over real parser runs in all three dialects',
            'A grammar-directed generator chooses every optional clause independently; each model is rendered under several random layouts and parsed by the real parser; the tree is compared with the tree built from the model and with the trees of the other layouts.',
            'Trusted: the expected-tree builder encodes the documented shape of the grammar actions; the layout generator never inserts a token.', '5/C02'),
    'C11': ('exploration', 'runtime monitor: mutation bookkeeping oracle (must-fail prefixes, exact line of inserted bad tokens) + generic error-class / line-range / logical-progress monitors on every parse',
            'Every token-level prefix and sampled character-level prefixes of generated texts, insertions with a known offending position, single-token mutations and character noise under all dialects; a counter on lexer entries replaces wall-clock for termination.',
            'Trusted: token spans recorded by the renderer; LALR never shifts an erroneous token.', '5/C11'),
    'C12': ('exploration', 'runtime monitor: differential long-lived vs fresh instance over input histories; subprocess sweep over PYTHONHASHSEED values',
            'Histories of valid and failing inputs on one parser / symbol-table generator / JSON / pysnmp generator / MibCompiler are compared element-wise with fresh instances (trees, texts, summaries, error class + line); the same corpus is compiled under 5-7 hash seeds in subprocesses and compared byte for byte.',
            'Trusted: nothing but equality; the time-stamp comment is masked.', '5/C12'),
    'C17': ('exploration', 'runtime monitor: cross-dialect differential (inclusion pairs of relaxation subsets) + planted documented breakages judged against the model tree',
            'Parsers are built from the shipped dialects, single options and random subsets (thorough: all 384 buildable subsets); acceptance and tree identity are compared along every inclusion pair; each documented breakage is planted in the model at a random applicable site and must parse to the corrected tree whenever its option is on.',
            'Trusted: breakages are planted in the model so the corrected tree is known by construction.', '5/C17'),
    'C03': ('exploration', 'runtime monitor: model-vs-JSON record comparison over real JSON-backend compiles (duplicate-rejecting json.loads)',
            'Mixed-kind modules of all eleven declaration kinds are compiled; key set and per-symbol class / node type / status / access / units / revisions are compared with the declaration each symbol was generated from.',
            'Trusted: the generator model; json.loads.', '5/C03'),
    'C04': ('exploration', 'runtime monitor: generated Python compiled and executed against a recording MIB builder; differential JSON vs executed pysnmp objects; load-together on a real pysnmp MibBuilder',
            'Module sets with cross-module imports of every importable kind are compiled by both back ends; imports between generated modules are resolved against what the exporter really exported; every JSON entry is compared with the exported pysnmp object; every 4th set is loaded from disk by a real MibBuilder.',
            'Trusted: pysnmp 7.1.29; kind / base-type correspondence tables in the harness. One open known finding (Python keywords as identifiers) is exercised by a stress profile only.', '5/C04'),
    'C05': ('exploration', 'runtime monitor: literal/default comparison with the generator model in JSON and in executed pysnmp syntax objects (constraint introspection)',
            'Integers are chosen first and spelled second (decimal, negative, 64-bit, hex, binary); chains of type assignments and textual conventions across modules; every DEFVAL notation; the JSON records and the instantiated pysnmp syntaxes are compared with the model.',
            'Trusted: pyasn1 constraint attributes (start/stop/values); the model.', '5/C05'),
    'C06': ('exploration', 'runtime monitor: reference-list comparison (model (module, name) pairs vs JSON and vs executed pysnmp getIndexNames / getObjects / augmentation registration)',
            'Tables with local / imported / IMPLIED indices, augmenting rows, notification / trap / group / compliance lists mixing local and imported members, hyphenated names on both sides of imports.',
            'Trusted: the model knows the defining module of every object.', '5/C06'),
    'C15': ('exploration', 'runtime monitor: text round-trip comparison (source text vs JSON vs text read back from the executed pysnmp module) across character classes, genTexts on/off and both text filters',
            'Texts drawn from hostile character classes are placed in every text-bearing clause; JSON must hold them exactly / whitespace-normalised, the executed pysnmp module must return them up to whitespace, and gated texts must be absent when not requested.',
            'Trusted: "up to whitespace" = runs collapsed and ends stripped; texts contain neither double quote nor NUL.', '5/C15'),
    'C16': ('exploration', 'runtime monitor: paired differential (SMIv1 rendering vs mechanical SMIv2 transliteration of one neutral model) + import-home sweep against a rule-derived table',
            'Both renderings are compiled for both back ends and compared modulo exactly what a transliteration changes; every (SMIv1 base module, symbol) pair of the conversion table is swept and the module it is imported from checked in JSON and in the executed pysnmp import calls. Typed INDEX entries are an open known finding exercised by a stress case.',
            'Trusted: the two renderers; the home table derived by rule from the RFCs.', '5/C16'),
}
PENDING_REASON = 'check not built yet in this session (work in progress; see DESIGN.md section 5 for the planned monitor)'


def main():
    props = [json.loads(l)['id'] for l in open(os.path.join(HERE, 'properties.jsonl'))]
    have = set()
    for fn in os.listdir(os.path.join(HERE, 'checks')):
        if fn[0] == 'c' and fn.endswith('.py') and fn[1:3].isdigit():
            have.add('C' + fn[1:3])
    checks = []
    na = []
    for pid in props:
        if pid in CHECKS and pid in have:
            cat, tech, text, note, ref = CHECKS[pid]
            checks.append({
                'property_id': pid,
                'quick_cmd': '%s run.py %s --tier quick' % (PY, pid),
                'thorough_cmd': '%s run.py %s --tier thorough' % (PY, pid),
                'evidence_file': 'evidence/%s.json' % pid,
                'replay_cmd_template': '%s run.py %s --replay {path}' % (PY, pid),
                'engine': 'runtime-monitor',
                'level_claimed': {'category': cat, 'text': text, 'design_ref': 'DESIGN.md ' + ref},
                'level_note': note,
                'technique': tech,
            })
        else:
            na.append({'property_id': pid, 'reason': NA.get(pid, PENDING_REASON)})
    man = {
        'version': 1,
        'setup_cmd': '%s setup.py' % PY,
        'hooks': {
            'guard': 'PYSMI_VERIF',
            'enable': 'none needed: every component is constructor-injected or reachable by rebinding module globals from the harness; checks set PYSMI_VERIF=1 for uniformity but /repo contains no guarded code',
            'baseline_off_cmd': 'cd /repo && /venv/bin/python -m pytest -ra -q -p no:cacheprovider --timeout=900 --continue-on-collection-errors',
            'source_commits': [],
            'add_only': True,
        },
        'engines': [{'name': 'runtime-monitor', 'path': 'run.py', 'serves_properties': [c['property_id'] for c in checks],
                     'kind_free_text': 'seeded workload generators + oracles observing executions of the real pysmi code (sharded over 16 worker processes); sys.monitoring coverage recorder; fault injection; trace checkers'}],
        'checks': checks,
        'notes': 'All checks: exit 0 held / exit 1 + VIOLATION line / exit 2 + INCONCLUSIVE line (never on the unchanged tree). Known findings: known_findings.json. See DESIGN.md.',
        'not_applicable': na,
    }
    with open(os.path.join(HERE, 'MANIFEST.json'), 'w') as f:
        json.dump(man, f, indent=1)
        f.write('\n')
    print('MANIFEST: %d checks, %d not claimed' % (len(checks), len(na)))


NA = {}

if __name__ == '__main__':
    main()
