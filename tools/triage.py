#!/venv/bin/python
"""Developer aid: run cases of one check in-process and group the violations.
usage: triage.py C01 0 200 [tier] [--show N]"""
import collections
import os
import re
import sys
import time
import traceback

sys.path.insert(0, os.path.dirname(os.path.dirname(os.path.abspath(__file__))))
from vlib import env  # noqa
env.pin()
import warnings  # noqa
warnings.simplefilter('ignore')
from vlib import harness  # noqa


def norm(s):
    s = re.sub(r"[A-Za-z0-9]+-[A-Z0-9]+-MIB", 'M', s)
    s = re.sub(r"\b[a-z]{3}[a-h]\d[A-Za-z0-9-]*", 'sym', s)
    s = re.sub(r"\d+", 'N', s)
    return s[:160]


def main():
    cid = sys.argv[1].upper()
    lo, hi = int(sys.argv[2]), int(sys.argv[3])
    tier = sys.argv[4] if len(sys.argv) > 4 and not sys.argv[4].startswith('--') else 'quick'
    show = int(sys.argv[sys.argv.index('--show') + 1]) if '--show' in sys.argv else 1
    mod = harness.load_check(cid)
    findings = harness.load_findings()
    groups = collections.OrderedDict()
    counts = collections.Counter()
    t0 = time.time()
    for i in range(lo, hi):
        res = harness.Result(i)
        try:
            mod.run_case(i, harness.case_rng(int(os.environ.get('VERIF_SEED', 0)), cid, i), tier, res)
        except Exception:
            res.violation('case_crashed', traceback.format_exc()[-1500:])
        for k, v in res.counts.items():
            counts[k] += v
        for v in res.violations:
            fd = harness.match_finding(findings, cid, v)
            key = (('KNOWN:' + fd['id'] + ' ') if fd else '') + v['monitor'] + ' ' + norm(v['detail'])
            groups.setdefault(key, []).append((i, v))
    print('%d cases in %.1fs' % (hi - lo, time.time() - t0))
    for k, vs in sorted(groups.items(), key=lambda kv: -len(kv[1])):
        print('%5d  %s' % (len(vs), k))
        for i, v in vs[:show]:
            print('        case %d features=%s' % (i, v['features']))
            print('        ' + v['detail'][:700].replace('\n', '\n        '))
    if '--counts' in sys.argv:
        for k, v in sorted(counts.items()):
            print('  %-40s %d' % (k, v))


if __name__ == '__main__':
    main()
