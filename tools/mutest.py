#!/venv/bin/python
"""Self-test aid: run checks against a scratch copy of /repo with a patch applied.

usage: mutest.py <patch.diff> [C01 C07 ...] [--tier quick] [--keep]
Creates a git worktree of /repo HEAD under /tmp/mutest-<pid>, applies the patch, runs the
baseline tests (optional, --tests) and the named checks (default: all) with VERIF_REPO
pointing at the copy and evidence/replays redirected, prints one line per check."""
import json
import os
import shutil
import subprocess
import sys
import tempfile
import time

HERE = os.path.dirname(os.path.dirname(os.path.abspath(__file__)))
ALL = ['C%02d' % i for i in range(1, 21)]


def main():
    args = sys.argv[1:]
    patch = os.path.abspath(args[0])
    checks = [a.upper() for a in args[1:] if not a.startswith('--')] or ALL
    tier = 'thorough' if '--thorough' in args else 'quick'
    base = tempfile.mkdtemp(prefix='mutest-', dir='/tmp')
    tree = os.path.join(base, 'tree')
    subprocess.check_call(['git', '-C', '/repo', 'worktree', 'add', '-q', '--detach', tree, 'HEAD'])
    try:
        r = subprocess.run(['git', '-C', tree, 'apply', '--whitespace=nowarn', patch], stderr=subprocess.PIPE)
        if r.returncode != 0:
            print('PATCH DOES NOT APPLY:', r.stderr.decode()[-400:])
            return 2
        if '--tests' in args:
            e = dict(os.environ, PYTHONPATH=tree)
            t = subprocess.run(['/venv/bin/python', '-m', 'pytest', '-q', '-p', 'no:cacheprovider',
                                '--continue-on-collection-errors'], cwd=tree, env=e, stdout=subprocess.PIPE,
                               stderr=subprocess.STDOUT)
            print('baseline tests:', t.stdout.decode().strip().splitlines()[-1])
        env = dict(os.environ, VERIF_REPO=tree, VERIF_EVIDENCE_DIR=os.path.join(base, 'evidence'),
                   VERIF_REPLAY_DIR=os.path.join(base, 'replays'))
        caught = []
        procs = []
        par = 3 if len(checks) > 3 else len(checks)
        pending = list(checks)
        results = {}
        while pending or procs:
            while pending and len(procs) < par:
                c = pending.pop(0)
                procs.append((c, time.time(), subprocess.Popen(
                    ['/venv/bin/python', os.path.join(HERE, 'run.py'), c, '--tier', tier],
                    env=env, cwd=HERE, stdout=subprocess.PIPE, stderr=subprocess.STDOUT)))
            for item in list(procs):
                c, t0, p = item
                if p.poll() is not None:
                    out = p.stdout.read().decode('utf-8', 'replace')
                    procs.remove(item)
                    mons = sorted(set(l.split('monitor=')[1].split(' ')[0] for l in out.splitlines()
                                      if l.strip().startswith('monitor=')))
                    results[c] = (p.returncode, mons, time.time() - t0)
                    tag = {0: 'held', 1: 'VIOLATION', 2: 'inconclusive'}.get(p.returncode, 'rc=%s' % p.returncode)
                    print('%s %-12s %5.0fs %s' % (c, tag, time.time() - t0, ','.join(mons)[:150]))
                    sys.stdout.flush()
                    if p.returncode == 1:
                        caught.append(c)
            time.sleep(0.3)
        print('CAUGHT BY:', ' '.join(caught) or 'nothing')
        return 0
    finally:
        subprocess.call(['git', '-C', '/repo', 'worktree', 'remove', '--force', tree])
        if '--keep' not in args:
            shutil.rmtree(base, ignore_errors=True)


if __name__ == '__main__':
    sys.exit(main())
