#!/bin/bash
# usage: tools/sweep.sh <tier> <seed> [ids...]  - runs checks sequentially with scratch evidence, prints verdict lines
TIER=$1; SEED=$2; shift 2
IDS=${@:-$(for i in $(seq -w 1 20); do echo C$i; done)}
export VERIF_EVIDENCE_DIR=/dev/shm/verif-sweep/ev-$TIER-$SEED VERIF_REPLAY_DIR=/dev/shm/verif-sweep/rp-$TIER-$SEED PYTHONHASHSEED=0
for id in $IDS; do
  /venv/bin/python /verif/run.py $id --tier $TIER --seed $SEED 2>&1 | grep -E "^(HELD|VIOLATION|INCONCLUSIVE|KNOWN-FINDING)|monitor=|wall=" | cut -c1-220 | sed "s/^/$TIER seed=$SEED $id: /"
done
