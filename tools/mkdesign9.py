#!/venv/bin/python
"""Rewrites the 'quick: evaluations / wall' column of the table in DESIGN.md section 9 from evidence/*.json."""
import json
import os
import re

HERE = os.path.dirname(os.path.dirname(os.path.abspath(__file__)))


def main():
    p = os.path.join(HERE, 'DESIGN.md')
    whole = open(p).read()
    a = whole.index('## 9. MANIFEST')
    b = whole.index('## 10. ', a)
    s = whole[a:b]          # only the table of section 9
    n = 0
    for i in range(1, 21):
        cid = 'C%02d' % i
        ev = json.load(open(os.path.join(HERE, 'evidence', cid + '.json')))
        cov = ev['coverage']
        cell = '%s evaluations, %s distinct non-trivial, %d pysmi functions entered / %d s (%s tier, seed %s)' % (
            format(cov['evaluations'], ',').replace(',', ' '), format(cov['distinct_nontrivial'], ',').replace(',', ' '),
            cov['observed'].get('pysmi_functions_entered', 0), round(ev['wall_s']), ev['tier'], ev['seed'])
        rx = re.compile(r'^(\| %s \| [^|]*\| [^|]*\|)[^|]*\|$' % cid, re.M)
        s, k = rx.subn(lambda m: m.group(1) + ' ' + cell + ' |', s)
        n += k
    open(p, 'w').write(whole[:a] + s + whole[b:])
    print(n, 'rows updated')


if __name__ == '__main__':
    main()
