#!/venv/bin/python
"""setup_cmd: offline preparation of the verification machinery.

* installs icontract (runtime contracts) from the offline wheelhouse into the git-ignored
  /verif/.deps (skipped when already importable);
* sanity-checks interpreter, fixtures, repository import and the tools some checks shell out to.
"""
import os
import shutil
import subprocess
import sys

HERE = os.path.dirname(os.path.abspath(__file__))
sys.path.insert(0, HERE)
from vlib import env  # noqa: E402


def main():
    deps = env.DEPS
    os.makedirs(deps, exist_ok=True)
    sys.path.insert(0, deps)
    try:
        import icontract  # noqa: F401
        print('icontract already present')
    except ImportError:
        wheels = '/opt/veriftools/wheels'
        if os.path.isdir(wheels):
            r = subprocess.run([env.PYTHON, '-m', 'pip', 'install', '--quiet', '--no-index',
                                '--find-links', wheels, '--target', deps, 'icontract'],
                               stdout=subprocess.PIPE, stderr=subprocess.STDOUT)
            print('pip install icontract ->', r.returncode, r.stdout.decode()[-300:])
        else:
            print('wheelhouse missing; contracts will be reported as not evaluated')
    env.pin()
    import pysmi
    print('pysmi', pysmi.__version__, 'from', os.path.dirname(pysmi.__file__))
    for mod in ('ply', 'jinja2', 'pysnmp'):
        __import__(mod)
    need = ['SNMPv2-SMI', 'SNMPv2-TC', 'SNMPv2-CONF', 'RFC1155-SMI', 'RFC-1212', 'RFC-1215',
            'RFC1213-MIB']
    miss = [n for n in need if not os.path.exists(os.path.join(env.FIXTURES, n))]
    if miss:
        print('missing fixtures', miss)
        return 1
    for tool in ('strace', 'inotifywait'):
        print(tool, shutil.which(tool) or 'NOT FOUND (the layers using it report inconclusive)')
    return 0


if __name__ == '__main__':
    sys.exit(main())
