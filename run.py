#!/venv/bin/python
"""Entry point: run.py <property id> [--tier quick|thorough] [--seed N] [--replay FILE]"""
import os
import sys

sys.dont_write_bytecode = True
sys.path.insert(0, os.path.dirname(os.path.abspath(__file__)))

from vlib import harness  # noqa: E402

if __name__ == '__main__':
    sys.exit(harness.main(sys.argv[1:]))
