"""A loopback web site for the HTTP reader (C14): one single-threaded server thread per worker process, serving a
mutable {path: (status, body, last_modified_header)} table and logging every request it sees.

The monitor sits on both sides of the wire: the client-side oracle judges what HttpReader.getData()
returns, the server-side log shows which locations the reader actually asked for."""
import threading

try:
    from http.server import BaseHTTPRequestHandler, HTTPServer
except ImportError:     # pragma: no cover
    BaseHTTPRequestHandler = HTTPServer = None

_site = {'table': {}, 'log': [], 'lock': threading.Lock()}
_server = [None]


class _Handler(BaseHTTPRequestHandler):
    protocol_version = 'HTTP/1.0'

    def log_message(self, *a):
        pass

    def do_GET(self):
        with _site['lock']:
            _site['log'].append((self.path, dict((k.lower(), v) for k, v in self.headers.items())))
            entry = _site['table'].get(self.path)
        if entry is None:
            self.send_response(404)
            self.send_header('Content-Length', '0')
            self.end_headers()
            return
        status, body, lastmod = entry
        self.send_response(status)
        self.send_header('Content-Type', 'text/plain')
        self.send_header('Content-Length', str(len(body)))
        if lastmod is not None:
            self.send_header('Last-Modified', lastmod)
        self.end_headers()
        self.wfile.write(body)


def port():
    """start the site on first use; returns its TCP port (None when loopback sockets are unavailable)"""
    if _server[0] is None:
        try:
            srv = HTTPServer(('127.0.0.1', 0), _Handler)
        except Exception:
            _server[0] = False
            return None
        srv.daemon_threads = True
        t = threading.Thread(target=srv.serve_forever, kwargs={'poll_interval': 0.05})
        t.daemon = True
        t.start()
        _server[0] = srv
    return _server[0].server_address[1] if _server[0] else None


def publish(table):
    with _site['lock']:
        _site['table'] = dict(table)
        _site['log'] = []


def requests():
    with _site['lock']:
        return list(_site['log'])
