"""Seeded generators of well-formed MIB module sets with ground truth attached.

The set is built top-down: every OID-bearing node receives its absolute OID when it is
created (parent's absolute OID + chosen arcs); every literal is an integer first and a
spelling second; every reference is a (module, name) pair.  Only afterwards are
declarations shuffled (forward references) and IMPORTS derived.
"""
import keyword

from vlib import mib
from vlib.mib import Decl, Oid, Syn, Lit, DefVal, Module

WORDS = ['alpha', 'beta', 'gamma', 'delta', 'node', 'port', 'link', 'chan', 'peer', 'stat', 'cfg',
         'admin', 'oper', 'temp', 'volt', 'fan', 'slot', 'card', 'unit', 'rate', 'count', 'index',
         'entry', 'table', 'name', 'descr', 'type', 'mode', 'state', 'time', 'addr', 'mask',
         'group', 'level', 'event', 'alarm', 'trap', 'log', 'user', 'key', 'hash', 'ver']
ARCS = [0, 1, 2, 3, 5, 9, 10, 11, 42, 48, 127, 128, 255, 256, 480, 65535, 2 ** 31 - 1, 2 ** 32 - 1]
STATUSES = ['current', 'deprecated', 'obsolete']
ACCESSES = ['read-only', 'read-write', 'read-create', 'not-accessible', 'accessible-for-notify']
PY_RESERVED = set(keyword.kwlist) | set(['mibBuilder', 'iso', 'imports', 'meta', 'None', 'True',
                                         'False'])

DEFAULT_PROFILE = {
    'modules': (1, 3),        # modules per set
    'nodes': (2, 8),          # plain OID nodes per module
    'scalars': (0, 4),
    'tables': (0, 2),
    'types': (0, 3),
    'notifs': (0, 2),
    'groups': (0, 2),
    'p_identity': 0.7,
    'p_hyphen': 0.25,
    'p_label_arc': 0.2,
    'p_numeric_root': 0.15,
    'p_cross_parent': 0.5,
    'p_forward': 1.0,         # shuffle declarations
    'max_arcs': 3,
    'depth_bias': 0.7,        # probability to attach below the deepest recent node
    'features': (),           # extra switches
    'texts': 'simple',
    'syntax': 'trivial',      # trivial | rich
}


def profile(**kw):
    p = dict(DEFAULT_PROFILE)
    p.update(kw)
    p['features'] = set(p.get('features') or ())
    return p


class Namer(object):
    def __init__(self, rng, p_hyphen=0.25):
        self.rng = rng
        self.used = set()
        self.p_hyphen = p_hyphen

    def _free(self, cand):
        key = cand.replace('-', '_').lower()
        if key in self.used or cand in PY_RESERVED or cand in mib.RESERVED or cand in mib.FORBIDDEN:
            return False
        self.used.add(key)
        return True

    def lower(self, prefix):
        rng = self.rng
        for _ in range(1000):
            parts = [rng.choice(WORDS).capitalize() for _ in range(rng.randint(1, 2))]
            if rng.random() < 0.3:
                parts.append(str(rng.randint(0, 99)))
            name = prefix
            for p in parts:
                if rng.random() < self.p_hyphen:
                    name += '-' + p
                else:
                    name += p
            if self._free(name):
                return name
        raise RuntimeError('name space exhausted')

    def upper(self, prefix):
        rng = self.rng
        for _ in range(1000):
            name = prefix + ''.join(rng.choice(WORDS).capitalize() for _ in range(rng.randint(1, 2)))
            if rng.random() < 0.3:
                name += str(rng.randint(0, 9))
            if rng.random() < self.p_hyphen * 0.5:
                name += '-' + rng.choice(WORDS).capitalize()
            if self._free(name):
                return name
        raise RuntimeError('name space exhausted')

    def label(self):
        # enumeration / bit labels need not be globally unique
        rng = self.rng
        s = rng.choice(WORDS)
        if rng.random() < 0.4:
            s += rng.choice(WORDS).capitalize()
        if rng.random() < 0.2:
            s += str(rng.randint(0, 9))
        if rng.random() < 0.15:
            s += '-' + rng.choice(WORDS)
        return s


def simple_text(rng):
    n = rng.randint(1, 6)
    return ' '.join(rng.choice(WORDS) for _ in range(n)) + rng.choice(['', '.', '!', ' (x)'])


def utc(rng, short=False):
    y = rng.randint(1990, 2030)
    s = '%02d%02d%02d%02dZ' % (rng.randint(1, 12), rng.randint(1, 28), rng.randint(0, 23),
                               rng.randint(0, 59))
    if short and y < 2000:
        return ('%04d' % y)[2:] + s
    return '%04d' % y + s


class SetGen(object):
    """Generates one module set.  `self.modules` (dependencies first) and lookup tables."""

    def __init__(self, rng, prof=None, tag=''):
        self.rng = rng
        self.p = prof or profile()
        self.f = self.p['features']
        self.tag = tag
        self.modules = []
        self.used_oids = set(mib.SMI_ROOTS.values()) | set([(1,), (0, 0)])
        self.namer = Namer(rng, self.p['p_hyphen'])
        self.text = self.p.get('text_fn') or simple_text
        self.nodes = {}      # (module, name) -> Decl with .oid
        self.objects = {}    # module -> [Decl objecttype scalar/column]
        self.notifs = {}     # module -> [Decl]
        self.types = {}      # module -> [Decl type/tc]
        self.rows = {}       # module -> [row Decl]
        self.ogroups = {}
        self.ngroups = {}
        self.stats = {}

    def count(self, k, n=1):
        self.stats[k] = self.stats.get(k, 0) + n

    # ------------------------------------------------------------------ names
    # The same name may be defined in several modules (legal, and a classic trigger for state
    # leaking between modules): a module never imports a name it also defines, nor the same
    # name from two modules.
    def _reuse(self, mod, upper):
        rng = self.rng
        if rng.random() >= self.p.get('p_reuse_name', 0.12):
            return None
        pool = [n for m in self.modules if m is not mod for n in m.local_names
                if (n[0].isupper() == upper) and n.replace('-', '_').lower() not in mod.taken]
        if not pool:
            return None
        name = rng.choice(pool)
        self.count('names_reused_across_modules')
        return name

    # identifiers that look like keywords of SMI / SPPI / ASN.1 but are none for this parser, in every dialect
    KEYWORDISH_UPPER = ['Integer64', 'Unsigned64', 'Float', 'Boolean', 'Real', 'String', 'Null', 'Set', 'Enumerated',
                        'Unsigned', 'Integer', 'Octet', 'Bit', 'Object', 'Identity', 'Status', 'Access', 'Syntax',
                        'Macro', 'Begin', 'End', 'Of', 'From', 'Type', 'Value', 'Size', 'Implied', 'Index', 'Units',
                        'Module', 'Group', 'Objects', 'Max', 'Min', 'True', 'False', 'Utf8String', 'Integer8',
                        'Unsigned16', 'Float64', 'Pib', 'Instance', 'Extends', 'Install', 'Name', 'Category']
    KEYWORDISH_LOWER = ['integer64', 'max', 'min', 'true', 'false', 'size', 'index', 'units', 'status', 'access',
                        'syntax', 'type', 'value', 'object', 'identity', 'group', 'module', 'begin', 'end', 'from',
                        'of', 'implied', 'current', 'deprecated', 'obsolete', 'mandatory', 'optional', 'any']

    def _keywordish(self, mod, upper):
        if 'keywordish' not in self.f or self.rng.random() >= 0.04:
            return None
        name = self.rng.choice(self.KEYWORDISH_UPPER if upper else self.KEYWORDISH_LOWER)
        used = getattr(self, '_kw_used', set())
        if name.lower() in used or name.lower() in mod.taken:
            return None
        used.add(name.lower())
        self._kw_used = used
        self.stats['keywordish_names'] = self.stats.get('keywordish_names', 0) + 1
        return name

    def lname(self, mod, suffix=''):
        name = (self._keywordish(mod, False) or self._reuse(mod, False)) if not suffix else None
        for _ in range(50):
            if name is None:
                name = self.namer.lower(mod.prefix) + suffix
            if name.replace('-', '_').lower() not in mod.taken:
                break
            name = None
        mod.taken.add(name.replace('-', '_').lower())
        mod.local_names.append(name)
        return name

    def uname(self, mod, suffix=''):
        name = (self._keywordish(mod, True) or self._reuse(mod, True)) if not suffix else None
        for _ in range(50):
            if name is None:
                name = self.namer.upper(mod.tprefix) + suffix
            if name.replace('-', '_').lower() not in mod.taken:
                break
            name = None
        mod.taken.add(name.replace('-', '_').lower())
        mod.local_names.append(name)
        return name

    def _fresh_with_suffix(self, mod, base, suffix):
        name = base + suffix
        if name.replace('-', '_').lower() in mod.taken or not self.namer._free(name):
            return self.lname(mod)
        mod.taken.add(name.replace('-', '_').lower())
        mod.local_names.append(name)
        return name

    def importable(self, mod, other, name):
        """may `mod` import `name` from module `other` without clashing with what it has?"""
        key = name.replace('-', '_').lower()
        if other == mod.name:
            return True
        if key in mod.imported:
            return mod.imported[key] == other
        return key not in mod.taken

    # ------------------------------------------------------------------ OIDs
    def arcs(self, parent_truth, first_numeric_root=False):
        rng = self.rng
        for _ in range(200):
            n = 1
            while n < self.p['max_arcs'] and rng.random() < 0.3:
                n += 1
            arcs = []
            for _i in range(n):
                v = rng.choice(ARCS) if rng.random() < 0.5 else rng.randint(1, 400)
                if rng.random() < self.p['p_label_arc']:
                    arcs.append(('l', self.namer.label().replace('-', ''), v))
                else:
                    arcs.append(('n', v))
            truth = tuple(parent_truth) + tuple(a[-1] for a in arcs)
            if truth not in self.used_oids:
                self.used_oids.add(truth)
                return arcs, truth
        raise RuntimeError('oid space exhausted')

    def root_oid(self, mod):
        """OID for a node that hangs off a base (SNMPv2-SMI) name or a numeric root."""
        rng = self.rng
        if rng.random() < self.p['p_numeric_root']:
            # fully numeric from the top, optionally `iso` / name(number) spellings
            base = [1, 3, 6, 1, 4, 1] if rng.random() < 0.7 else rng.choice(
                [[1, 3, 6, 1, 2, 1], [1, 3, 6, 1, 3], [2, 16], [0, 5], [1, 2]])
            labels = {1: 'iso', 3: 'org', 6: 'dod'}
            style = rng.choice(['num', 'iso', 'labelled'])
            arcs, truth = self.arcs(tuple(base))
            if style == 'iso' and base[0] == 1:
                self.count('root_iso')
                return Oid(('', 'iso'), [('n', x) for x in base[1:]] + arcs, truth)
            if style == 'labelled':
                self.count('root_labelled')
                pre = []
                for i, x in enumerate(base):
                    if i < 3 and x in labels and rng.random() < 0.7:
                        pre.append(('l', labels[x], x))
                    else:
                        pre.append(('n', x))
                if base[0] == 1 and rng.random() < 0.5:
                    return Oid(('', 'iso'), pre[1:] + arcs, truth)
                return Oid(None, pre + arcs, truth)
            self.count('root_numeric')
            return Oid(None, [('n', x) for x in base] + arcs, truth)
        weights = [('enterprises', 8), ('mib-2', 2), ('experimental', 2), ('private', 1),
                   ('snmpModules', 1), ('transmission', 1), ('mgmt', 1), ('internet', 1),
                   ('org', 1)]
        pool = [n for n, w in weights for _ in range(w)]
        name = rng.choice(pool)
        arcs, truth = self.arcs(mib.SMI_ROOTS[name])
        mod.need('SNMPv2-SMI', name)
        self.count('root_smi_name')
        return Oid(('SNMPv2-SMI', name), arcs, truth)

    def child_oid(self, mod, parent_key=None):
        """OID below an existing node (local, or imported from an earlier module)."""
        rng = self.rng
        local = [k for k in mod.node_keys]
        foreign = [k for m in self.modules for k in m.node_keys
                   if m is not mod and self.importable(mod, k[0], k[1])]
        if parent_key is None:
            cands = []
            if local:
                cands.append('local')
            if foreign and rng.random() < self.p['p_cross_parent']:
                cands.append('foreign')
            if not cands or (not local and 'foreign' not in cands):
                return self.root_oid(mod)
            which = rng.choice(cands) if 'local' not in cands or rng.random() < 0.35 else 'local'
            if which == 'foreign' and 'foreign' in cands:
                parent_key = rng.choice(foreign)
            elif rng.random() < self.p['depth_bias']:
                parent_key = local[-1 - int(rng.random() * min(3, len(local)))]
            else:
                parent_key = rng.choice(local)
        pd = self.nodes[parent_key]
        arcs, truth = self.arcs(pd.oid.truth)
        if parent_key[0] != mod.name:
            mod.need(parent_key[0], parent_key[1])
            self.count('parent_imported')
            depth = getattr(pd, 'import_depth', 0) + 1
        else:
            self.count('parent_local')
            depth = getattr(pd, 'import_depth', 0)
        o = Oid(parent_key, arcs, truth)
        o.import_depth = depth
        return o

    def register(self, mod, d):
        mod.decls.append(d)
        if d.oid is not None:
            self.nodes[(mod.name, d.name)] = d
            d.import_depth = getattr(d.oid, 'import_depth', 0)
            if d.kind not in ('traptype',):
                mod.node_keys.append((mod.name, d.name))
        return d

    # ------------------------------------------------------------------ declarations
    def new_module(self):
        rng = self.rng
        for _ in range(100):
            name = rng.choice(['ACME', 'VND', 'Xy9', 'TEST', 'Foo']) + '-' + \
                rng.choice(WORDS).upper() + rng.choice(['', str(rng.randint(0, 9))]) + '-MIB'
            if name not in [m.name for m in self.modules]:
                break
        m = Module(name)
        m.prefix = rng.choice(WORDS)[:3] + rng.choice('abcdefgh') + str(len(self.modules))
        m.tprefix = 'Vt' + m.prefix.capitalize()
        m.node_keys = []
        m.needs = []
        m.taken = set()         # lower-cased python names defined locally or imported
        m.local_names = []
        m.imported = {}

        def need(module, sym, m=m):
            if module != m.name and (module, sym) not in m.needs:
                m.needs.append((module, sym))
                key = sym.replace('-', '_').lower()
                m.imported.setdefault(key, module)
                m.taken.add(key)
        m.need = need
        self.modules.append(m)
        return m

    def common(self, d, mod, macro):
        rng = self.rng
        d.status = rng.choice(STATUSES)
        d.descr = self.text(rng)
        d.ref = self.text(rng) if rng.random() < 0.3 else None
        if macro:
            mod.need(mib.MACRO_HOME[macro], macro)

    def gen_identity(self, mod):
        rng = self.rng
        d = Decl('moduleidentity', self.lname(mod))
        self.common(d, mod, 'MODULE-IDENTITY')
        d.status = None
        d.ref = None
        d.lastupdated = utc(rng)
        d.organization = self.text(rng)
        d.contact = self.text(rng)
        d.revisions = [(utc(rng, short=rng.random() < 0.2), self.text(rng))
                       for _ in range(rng.choice([0, 0, 1, 2, 3]))]
        d.oid = self.child_oid(mod) if (self.modules[:-1] and rng.random() < 0.3) else self.root_oid(mod)
        return self.register(mod, d)

    def gen_node(self, mod):
        rng = self.rng
        if rng.random() < 0.6:
            d = Decl('value', self.lname(mod))
        else:
            d = Decl('objectidentity', self.lname(mod))
            self.common(d, mod, 'OBJECT-IDENTITY')
        d.oid = self.child_oid(mod)
        return self.register(mod, d)

    def trivial_syntax(self, mod):
        mod.need('SNMPv2-SMI', 'Integer32')
        return Syn('Integer32', base='Integer32')

    def gen_scalar(self, mod, syntax=None, role='scalar', parent_key=None, access=None):
        rng = self.rng
        d = Decl('objecttype', self.lname(mod))
        self.common(d, mod, 'OBJECT-TYPE')
        d.syntax = syntax or self.syntax_for_object(mod)
        d.units = self.text(rng) if rng.random() < 0.25 else None
        d.access = access or rng.choice(ACCESSES[:3] if role == 'scalar' else ACCESSES)
        d.access_kw = 'MAX-ACCESS'
        d.augments = None
        d.index = None
        d.defval = None
        d.role = role
        d.oid = self.child_oid(mod, parent_key)
        self.register(mod, d)
        if role in ('scalar', 'column'):
            self.objects.setdefault(mod.name, []).append(d)
            if 'defval' in self.f or self.p['syntax'] == 'rich':
                self.maybe_defval(mod, d)
        return d

    def syntax_for_object(self, mod):
        if self.p['syntax'] == 'trivial':
            return self.trivial_syntax(mod)
        from vlib import gensyn
        return gensyn.object_syntax(self, mod)

    def maybe_defval(self, mod, d):
        from vlib import gensyn
        gensyn.maybe_defval(self, mod, d)

    def gen_table(self, mod):
        rng = self.rng
        pfx = mod.prefix
        base = self.namer.lower(pfx)
        seqname = self.uname(mod)
        table = Decl('objecttype', self.lname(mod, 'Table') if False else self._fresh_with_suffix(mod, base, 'Table'))
        self.common(table, mod, 'OBJECT-TYPE')
        table.syntax = Syn(seqname, kind='seqof')
        table.units = None
        table.access = 'not-accessible'
        table.access_kw = 'MAX-ACCESS'
        table.augments = table.index = table.defval = None
        table.role = 'table'
        table.oid = self.child_oid(mod)
        self.register(mod, table)
        tkey = (mod.name, table.name)

        row = Decl('objecttype', self._fresh_with_suffix(mod, base, 'Entry'))
        self.common(row, mod, 'OBJECT-TYPE')
        row.syntax = Syn(seqname, kind='type')
        row.syntax.rowref = True
        row.units = None
        row.access = 'not-accessible'
        row.access_kw = 'MAX-ACCESS'
        row.augments = row.index = row.defval = None
        row.role = 'row'
        # row is the child `1` of the table in real MIBs, any arc is legal here
        arcs, truth = self.arcs(table.oid.truth)
        row.oid = Oid(tkey, arcs, truth)
        self.count('parent_local')
        self.register(mod, row)
        rkey = (mod.name, row.name)
        self.rows.setdefault(mod.name, []).append(row)

        ncols = rng.randint(1, self.p.get('max_cols', 5))
        cols = []
        for _ in range(ncols):
            c = self.gen_scalar(mod, role='column', parent_key=rkey)
            cols.append(c)
        row.columns = cols
        table.row = row
        row.table = table

        # the SEQUENCE type
        items = []
        for c in cols:
            items.append((c.name, seq_syntax(c.syntax)))
        seq = Decl('sequence', seqname, items=items)
        mod.decls.append(seq)

        # INDEX or AUGMENTS
        foreign_rows = [r for m in self.modules if m is not mod for r in self.rows.get(m.name, [])
                        if r.index is not None and self.importable(mod, m.name, r.name)]
        local_rows = [r for r in self.rows.get(mod.name, []) if r is not row and r.index is not None]
        if (foreign_rows or local_rows) and rng.random() < self.p.get('p_augments', 0.25):
            cands = local_rows + (foreign_rows if rng.random() < 0.6 else [])
            target = rng.choice(cands or local_rows or foreign_rows)
            tmod = target.module_name
            row.augments = (tmod, target.name)
            if tmod != mod.name:
                mod.need(tmod, target.name)
                self.count('augments_imported')
            else:
                self.count('augments_local')
        else:
            nidx = rng.randint(1, min(self.p.get('max_idx', 3), ncols + 2))
            idx = []
            pool_local = list(cols)
            foreign_cols = [c for m in self.modules if m is not mod
                            for c in self.objects.get(m.name, [])
                            if c.role == 'column' and self.importable(mod, m.name, c.name)]
            for i in range(nidx):
                if foreign_cols and rng.random() < self.p.get('p_foreign_index', 0.3):
                    c = rng.choice(foreign_cols)
                    cm = c.module_name
                    if not self.importable(mod, cm, c.name):
                        continue
                    mod.need(cm, c.name)
                    self.count('index_imported')
                else:
                    if not pool_local:
                        break
                    c = pool_local.pop(rng.randrange(len(pool_local)))
                    cm = mod.name
                    self.count('index_local')
                if (cm, c.name) in [(m_, n_) for _i, m_, n_ in idx]:
                    continue
                idx.append([False, cm, c.name])
            if not idx:
                idx.append([False, mod.name, cols[0].name])
            if rng.random() < self.p.get('p_implied', 0.3):
                idx[-1][0] = True
                self.count('index_implied')
            row.index = [tuple(x) for x in idx]
        row.module_name = mod.name
        return table

    def pick_objects(self, mod, kinds, lo=1, hi=5):
        """ordered list of (module, name) of objects, local and imported"""
        rng = self.rng
        local = list(kinds.get(mod.name, []))
        foreign = [(m.name, o) for m in self.modules if m is not mod for o in kinds.get(m.name, [])
                   if self.importable(mod, m.name, o.name)]
        out = []
        n = rng.randint(lo, hi)
        for _ in range(n):
            if foreign and rng.random() < self.p.get('p_foreign_member', 0.3):
                mname, o = rng.choice(foreign)
            elif local:
                mname, o = mod.name, rng.choice(local)
            elif foreign:
                mname, o = rng.choice(foreign)
            else:
                break
            if (mname, o.name) in out or not self.importable(mod, mname, o.name):
                continue
            out.append((mname, o.name))
            if mname != mod.name:
                mod.need(mname, o.name)
                self.count('member_imported')
            else:
                self.count('member_local')
        return out

    def gen_notification(self, mod):
        rng = self.rng
        d = Decl('notificationtype', self.lname(mod))
        self.common(d, mod, 'NOTIFICATION-TYPE')
        d.objects = self.pick_objects(mod, self.objects, 0, self.p.get('max_list', 5))
        d.oid = self.child_oid(mod)
        self.register(mod, d)
        self.notifs.setdefault(mod.name, []).append(d)
        return d

    def gen_trap(self, mod):
        rng = self.rng
        d = Decl('traptype', self.lname(mod))
        mod.need('RFC-1215', 'TRAP-TYPE')
        d.descr = self.text(rng) if rng.random() < 0.7 else None
        d.ref = self.text(rng) if rng.random() < 0.3 else None
        d.objects = self.pick_objects(mod, self.objects, 0, 4)
        # enterprise: a bare name (the only form valid SMIv1 knows)
        keys = list(mod.node_keys) + [k for m in self.modules if m is not mod for k in m.node_keys
                                      if self.importable(mod, k[0], k[1])]
        if not keys:
            self.gen_node(mod)
            keys = list(mod.node_keys)
        key = rng.choice(keys[-6:]) if rng.random() < 0.7 else rng.choice(keys)
        if key[0] != mod.name:
            mod.need(key[0], key[1])
            self.count('trap_enterprise_imported')
        ent = self.nodes[key]
        for _ in range(100):
            num = rng.choice([0, 1, 2, 5, 6, 100, 65535, 2 ** 31 - 1]) if rng.random() < 0.5 \
                else rng.randint(1, 300)
            truth = ent.oid.truth + (0, num)
            if truth not in self.used_oids:
                self.used_oids.add(truth)
                break
        d.enterprise = Oid(key, [], ent.oid.truth)
        d.number = num
        d.oid = Oid(key, [('n', 0), ('n', num)], truth)   # never rendered; truth carrier
        d.braces = False
        self.register(mod, d)
        self.notifs.setdefault(mod.name, []).append(d)
        self.count('trap')
        return d

    def gen_group(self, mod):
        rng = self.rng
        have_n = any(self.notifs.get(m.name) for m in self.modules)
        have_o = any(self.objects.get(m.name) for m in self.modules)
        if have_n and (not have_o or rng.random() < 0.35):
            pool = dict((m, [n for n in v if n.kind == 'notificationtype'])
                        for m, v in self.notifs.items())
            if any(pool.values()):
                d = Decl('notificationgroup', self.lname(mod))
                self.common(d, mod, 'NOTIFICATION-GROUP')
                d.objects = self.pick_objects(mod, pool, 1, self.p.get('max_list', 5))
                if d.objects:
                    d.oid = self.child_oid(mod)
                    self.register(mod, d)
                    self.ngroups.setdefault(mod.name, []).append(d)
                    return d
        if not have_o:
            return None
        d = Decl('objectgroup', self.lname(mod))
        self.common(d, mod, 'OBJECT-GROUP')
        d.objects = self.pick_objects(mod, self.objects, 1, self.p.get('max_list', 5))
        if not d.objects:
            return None
        d.oid = self.child_oid(mod)
        self.register(mod, d)
        self.ogroups.setdefault(mod.name, []).append(d)
        return d

    def gen_compliance(self, mod):
        rng = self.rng
        groups = {}
        for m in self.modules:
            groups[m.name] = self.ogroups.get(m.name, []) + self.ngroups.get(m.name, [])
        if not any(groups.values()):
            return None
        d = Decl('modulecompliance', self.lname(mod))
        self.common(d, mod, 'MODULE-COMPLIANCE')
        d.modules = []
        nm = rng.randint(1, 3)
        seen_mods = set()
        for _ in range(nm):
            cands = [m for m in self.modules if groups.get(m.name) and m.name not in seen_mods]
            if not cands:
                break
            target = rng.choice(cands)
            seen_mods.add(target.name)
            local = target is mod
            gl = [g.name for g in groups[target.name]]
            rng.shuffle(gl)
            k = rng.randint(0, len(gl))
            mand = gl[:k]
            opt = gl[k:k + rng.randint(0, 3)]
            items = [('GROUP', g, self.text(rng)) for g in opt]
            if 'compliance_objects' in self.f:
                objd = dict((o.name, o) for o in self.objects.get(target.name, []))
                objs = list(objd)
                for o in objs[:rng.randint(0, 2)]:
                    pos = rng.randint(1 if 'no_leading_object' in self.f and items else 0, len(items)) \
                        if items else 0
                    if 'no_leading_object' in self.f and pos == 0:
                        if not items:
                            continue
                        pos = 1
                    # refined SYNTAX / WRITE-SYNTAX clauses repeat the object's own syntax: the clause
                    # grammar is exercised, nothing of it is kept in the tree or in the output
                    osyn = getattr(objd[o], 'syntax', None)
                    items.insert(pos, ('OBJECT', o,
                                       osyn if osyn is not None and rng.random() < 0.4 else None,
                                       osyn if osyn is not None and rng.random() < 0.3 else None,
                                       rng.choice([None, 'read-only', 'not-accessible']),
                                       self.text(rng)))
            if not mand and not items:
                mand = gl[:1]
            cm = {'name': None if (local and rng.random() < 0.6) else target.name,
                  'mandatory': mand, 'items': items, 'target': target.name}
            d.modules.append(cm)
            # compliance MODULE clauses name their module; no IMPORTS needed for the groups
        if not d.modules:
            return None
        d.oid = self.child_oid(mod)
        return self.register(mod, d)

    def gen_capabilities(self, mod):
        rng = self.rng
        d = Decl('agentcapabilities', self.lname(mod))
        self.common(d, mod, 'AGENT-CAPABILITIES')
        d.release = self.text(rng)
        d.supports = []
        if 'capabilities_modules' in self.f:
            for m in self.modules:
                gl = [g.name for g in self.ogroups.get(m.name, [])]
                if gl and rng.random() < 0.6:
                    sup = {'module': m.name, 'groups': gl[:rng.randint(1, len(gl))], 'variations': []}
                    mobjs = self.objects.get(m.name, [])
                    for o in mobjs[:rng.randint(0, 2)]:
                        osyn = getattr(o, 'syntax', None)
                        sup['variations'].append({
                            'name': o.name, 'access': rng.choice([None, 'read-only', 'not-implemented']),
                            'syntax': osyn if osyn is not None and rng.random() < 0.35 else None,
                            'write_syntax': osyn if osyn is not None and rng.random() < 0.25 else None,
                            'creation': [x.name for x in rng.sample(mobjs, rng.randint(1, min(3, len(mobjs))))]
                            if rng.random() < 0.3 else None,
                            'defval': rng.choice(['0', '1', '-1', "'00'H", 'someLabel']) if rng.random() < 0.25 else None,
                            'descr': self.text(rng)})
                    d.supports.append(sup)
        d.oid = self.child_oid(mod)
        return self.register(mod, d)

    # ------------------------------------------------------------------ whole set
    def build(self):
        rng = self.rng
        p = self.p
        nmods = rng.randint(*p['modules'])
        for _mi in range(nmods):
            mod = self.new_module()
            if rng.random() < p.get('p_tiny', 0.04):
                # a module holding exactly one declaration (lists of one: exports, imports)
                if (p['syntax'] == 'rich' or 'types' in self.f) and rng.random() < 0.5:
                    # nothing but type assignments over ASN.1 types: a module without an IMPORTS clause
                    from vlib import gensyn
                    for _ in range(rng.randint(1, 2)):
                        gensyn.gen_type(self, mod, plain=True)
                    self.stats['modules_without_imports'] = self.stats.get('modules_without_imports', 0) + 1
                else:
                    rng.choice([self.gen_node, self.gen_scalar])(mod)
                for d in mod.decls:
                    d.module_name = mod.name
                self.finish_module(mod)
                self.stats['tiny_modules'] = self.stats.get('tiny_modules', 0) + 1
                continue
            if rng.random() < p['p_identity']:
                self.gen_identity(mod)
            for _ in range(rng.randint(*p['nodes'])):
                self.gen_node(mod)
            if p['syntax'] == 'rich' or 'types' in self.f:
                from vlib import gensyn
                for _ in range(rng.randint(*p['types'])):
                    gensyn.gen_type(self, mod)
            for _ in range(rng.randint(*p['scalars'])):
                self.gen_scalar(mod)
            for _ in range(rng.randint(*p['tables'])):
                self.gen_table(mod)
            for _ in range(rng.randint(*p['notifs'])):
                self.gen_notification(mod)
            if 'traps' in self.f:
                for _ in range(rng.randint(0, 2)):
                    self.gen_trap(mod)
            for _ in range(rng.randint(*p['groups'])):
                self.gen_group(mod)
            if 'compliance' in self.f and rng.random() < 0.7:
                self.gen_compliance(mod)
            if 'capabilities' in self.f and rng.random() < 0.4:
                self.gen_capabilities(mod)
            if 'blocks' in self.f:
                self.gen_blocks(mod)
            for d in mod.decls:
                d.module_name = mod.name
            self.finish_module(mod)
        return self

    def gen_blocks(self, mod):
        rng = self.rng
        from vlib.layout import Raw
        if rng.random() < 0.4:
            body = ' ::= BEGIN TYPE NOTATION ::= "X" value(Y)\n VALUE NOTATION ::= value(VALUE Z) '
            if rng.random() < 0.5:
                body = body.replace(' TYPE', '\n -- a "comment" inside\n TYPE')
            name = rng.choice(['OBJECT-TYPE', 'TRAP-TYPE', 'OBJECT-GROUP', 'NOTIFICATION-TYPE',
                               'MODULE-IDENTITY', 'TEXTUAL-CONVENTION'])
            mod.decls.insert(rng.randint(0, len(mod.decls)), Decl('macro', name, body=Raw(body)))
            self.count('macro_block')
        if rng.random() < 0.4:
            body = ' a INTEGER,\n b OCTET STRING -- c; "q"\n'
            mod.decls.insert(rng.randint(0, len(mod.decls)),
                             Decl('choice', self.uname(mod), body=Raw(body)))
            self.count('choice_block')
        if rng.random() < 0.3:
            mod.exports = Raw(' everything, and more -- "x" END\n ')
            self.count('exports_block')

    def finish_module(self, mod):
        rng = self.rng
        if rng.random() < self.p['p_forward']:
            rng.shuffle(mod.decls)
            self.count('shuffled')
        # forward-reference statistics
        pos = dict((d.name, i) for i, d in enumerate(mod.decls))
        fwd = 0
        for i, d in enumerate(mod.decls):
            o = getattr(d, 'oid', None)
            par = d.enterprise.parent if d.kind == 'traptype' else (o.parent if o is not None else None)
            if par and par[0] == mod.name and pos.get(par[1], -1) > i:
                fwd += 1
        mod.forward_refs = fwd
        self.count('forward_parent_refs', fwd)
        # IMPORTS
        groups = {}
        order = []
        for m, s in mod.needs:
            if m not in groups:
                groups[m] = []
                order.append(m)
            if s not in groups[m]:
                groups[m].append(s)
        rng.shuffle(order)
        for m in order:
            rng.shuffle(groups[m])
        mod.imports = [(m, groups[m]) for m in order]
        if 'split_imports' in self.f and mod.imports and rng.random() < 0.3:
            m, syms = rng.choice(mod.imports)
            if len(syms) > 1:
                k = rng.randint(1, len(syms) - 1)
                i = mod.imports.index((m, syms))
                mod.imports[i] = (m, syms[:k])
                mod.imports.insert(rng.randint(0, len(mod.imports)), (m, syms[k:]))
                self.count('split_imports')
        if 'module_oid' in self.f and rng.random() < 0.25:
            mod.module_oid = Oid(('', 'iso'), [('l', 'org', 3), ('n', 6), ('n', rng.randint(1, 9))], (1, 3, 6, 1))
            self.count('module_oid')

    # ------------------------------------------------------------------ views
    def texts(self, lay_factory=None):
        from vlib.layout import Layout, render_module
        out = {}
        for m in self.modules:
            lay = lay_factory() if lay_factory else Layout()
            out[m.name] = render_module(m, lay)
        return out

    def signature(self):
        """structural hash input: kinds, parent relations, arc spellings (no names)"""
        sig = []
        for m in self.modules:
            pos = dict((d.name, i) for i, d in enumerate(m.decls))
            for i, d in enumerate(m.decls):
                o = getattr(d, 'oid', None)
                if o is None:
                    sig.append((d.kind,))
                    continue
                par = o.parent
                rel = 'root' if par is None else ('base' if par[0] in ('', 'SNMPv2-SMI') else (
                    'imp' if par[0] != m.name else ('fwd' if pos.get(par[1], -1) > i else 'back')))
                sig.append((d.kind, rel, tuple(a[0] for a in o.arcs), len(o.truth)))
        return sig


def seq_syntax(syn):
    """how a column's type is written inside the SEQUENCE { } of its row type"""
    if syn.kind == 'bits':
        return 'BITS'
    return syn.written
