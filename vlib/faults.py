"""In-process fault injection for the file writers.

`Proxy` objects are substituted for the names `os`, `tempfile`, `py_compile` inside
pysmi.writer.localfile / pysmi.writer.pyfile (module globals are rebound from the harness
and restored afterwards).  Every call that goes through them is logged with an ordinal;
a `Plan` turns exactly one ordinal into a fault:

  error:<ERRNO>   raise OSError(errno) instead of performing the call
  after:<ERRNO>   perform the call, then raise (e.g. close() failing after data hit disk)
  short:<k>       os.write really writes the first k bytes only and returns k
  exc:<Name>      raise that exception class (py_compile failures)
  kill_before / kill_after / kill_mid   SIGKILL the (forked) process right before / after the
                  call, or after half of a write - crash points at call-site granularity
"""
import errno
import os
import types

WATCHED = {
    'os': ('makedirs', 'mkdir', 'write', 'close', 'rename', 'replace', 'unlink', 'remove', 'access',
           'open', 'fsync', 'stat', 'fdopen', 'link', 'chmod', 'utime', 'truncate', 'ftruncate',
           'pwrite', 'writev', 'sendfile', 'rmdir', 'symlink'),
    'os.path': ('exists', 'isdir', 'isfile'),
    'tempfile': ('mkstemp', 'NamedTemporaryFile', 'mkdtemp', 'mktemp', 'TemporaryFile'),
    'py_compile': ('compile',),
    'shutil': ('move', 'copy', 'copyfile', 'copy2'),
    'builtins': ('open',),
}
MUTATORS = ('makedirs', 'mkdir', 'write', 'close', 'rename', 'replace', 'mkstemp', 'compile',
            'NamedTemporaryFile', 'open', 'fsync', 'pwrite', 'writev', 'link', 'move', 'copy',
            'copyfile', 'truncate', 'ftruncate', 'fdopen')


class Plan(object):
    def __init__(self, target=None, fault=None):
        self.target = target      # ordinal of the call to hit
        self.fault = fault
        self.log = []             # [(ordinal, qualified name, args digest, outcome)]
        self.hit = False


class Proxy(object):
    def __init__(self, real, qual, plan):
        object.__setattr__(self, '_real', real)
        object.__setattr__(self, '_qual', qual)
        object.__setattr__(self, '_plan', plan)

    def __getattr__(self, name):
        real = getattr(self._real, name)
        qual = self._qual + '.' + name
        if isinstance(real, types.ModuleType) and qual in WATCHED:
            return Proxy(real, qual, self._plan)
        if name in WATCHED.get(self._qual, ()) and callable(real):
            return self._wrap(real, qual, name)
        return real

    def _wrap(self, real, qual, name):
        plan = self._plan

        def call(*a, **kw):
            n = len(plan.log)
            digest = tuple(x if isinstance(x, (int, str)) else (len(x) if isinstance(x, bytes) else type(x).__name__)
                           for x in a[:2])
            entry = [n, qual, digest, None]
            plan.log.append(entry)
            if plan.target == n and plan.fault:
                plan.hit = True
                kind, _, arg = plan.fault.partition(':')
                if kind == 'error':
                    entry[3] = 'injected ' + arg
                    raise OSError(getattr(errno, arg), 'injected %s at %s' % (arg, qual))
                if kind == 'exc':
                    entry[3] = 'injected ' + arg
                    raise {'OSError': OSError, 'RuntimeError': RuntimeError, 'ValueError': ValueError,
                           'MemoryError': MemoryError}[arg]('injected at %s' % qual)
                if kind == 'short' and name == 'write':
                    k = min(int(arg), len(a[1]))
                    r = real(a[0], a[1][:k])
                    entry[3] = 'short %d of %d' % (r, len(a[1]))
                    return r
                if kind == 'after':
                    real(*a, **kw)
                    entry[3] = 'done, then injected ' + arg
                    raise OSError(getattr(errno, arg), 'injected %s after %s' % (arg, qual))
                if kind == 'kill_before':
                    os.kill(os.getpid(), 9)
                if kind == 'kill_after':
                    real(*a, **kw)
                    os.kill(os.getpid(), 9)
                if kind == 'kill_mid' and name == 'write':
                    real(a[0], a[1][:max(0, len(a[1]) // 2)])
                    os.kill(os.getpid(), 9)
            r = real(*a, **kw)
            entry[3] = 'ok'
            if name in ('open', 'fdopen', 'NamedTemporaryFile') and hasattr(r, 'write') and \
                    not isinstance(r, int):
                return FileProxy(r, plan)
            return r
        return call


class FileProxy(object):
    """wraps file objects obtained through open()/os.fdopen() inside the writer module"""

    def __init__(self, real, plan):
        object.__setattr__(self, '_real', real)
        object.__setattr__(self, '_plan', plan)

    def __getattr__(self, name):
        real = getattr(self._real, name)
        if name in ('write', 'close', 'flush', 'writelines'):
            plan = self._plan

            def call(*a, **kw):
                n = len(plan.log)
                entry = [n, 'file.' + name, (len(a[0]) if a and hasattr(a[0], '__len__') else None,), None]
                plan.log.append(entry)
                if plan.target == n and plan.fault:
                    plan.hit = True
                    kind, _, arg = plan.fault.partition(':')
                    if kind == 'short' and name == 'write':
                        k = min(int(arg), len(a[0]))
                        real(a[0][:k])
                        self._real.flush()
                        entry[3] = 'short %d of %d then ENOSPC' % (k, len(a[0]))
                        raise OSError(errno.ENOSPC, 'injected short write')
                    if kind == 'after':
                        real(*a, **kw)
                        entry[3] = 'done, then injected ' + arg
                        raise OSError(getattr(errno, arg), 'injected after file.%s' % name)
                    entry[3] = 'injected'
                    raise OSError(getattr(errno, arg, errno.EIO), 'injected at file.%s' % name)
                r = real(*a, **kw)
                entry[3] = 'ok'
                return r
            return call
        return real

    def __enter__(self):
        self._real.__enter__()
        return self

    def __exit__(self, *exc):
        return self.close() and False

    def __iter__(self):
        return iter(self._real)


_PKG_MODULES = {}


class Patched(object):
    """context manager rebinding os / tempfile / py_compile / open in a writer module - and in the other
    modules of its package, should the I/O steps have been moved into a shared base module"""

    def __init__(self, module, plan):
        import sys
        pkg = module.__name__.rsplit('.', 1)[0]
        if pkg not in _PKG_MODULES:
            _PKG_MODULES[pkg] = [m for n, m in sorted(sys.modules.items())
                                 if m is not None and (n == pkg or n.startswith(pkg + '.'))]
        self.modules = [module] + [m for m in _PKG_MODULES[pkg] if m is not module]
        self.plan = plan
        self.saved = []

    def __enter__(self):
        import tempfile
        import py_compile
        import builtins
        for mod in self.modules:
            for name, real in (('os', os), ('tempfile', tempfile), ('py_compile', py_compile)):
                if name in vars(mod):
                    self.saved.append((mod, name, True, vars(mod)[name]))
                    setattr(mod, name, Proxy(real, name, self.plan))
            self.saved.append((mod, 'open', 'open' in vars(mod), vars(mod).get('open')))
            mod.open = Proxy(builtins, 'builtins', self.plan).open
        return self.plan

    def __exit__(self, *exc):
        for mod, name, had, val in self.saved:
            if had:
                setattr(mod, name, val)
            else:
                try:
                    delattr(mod, name)
                except AttributeError:
                    pass
        self.saved = []
        return False


def snapshot(root):
    """relative path -> (type, size, sha1) of everything below root"""
    import hashlib
    out = {}
    if not os.path.exists(root):
        return None
    for dp, dns, fns in os.walk(root):
        for dn in dns:
            out[os.path.relpath(os.path.join(dp, dn), root) + '/'] = ('dir',)
        for fn in fns:
            p = os.path.join(dp, fn)
            try:
                with open(p, 'rb') as f:
                    data = f.read()
                st = os.stat(p)
                out[os.path.relpath(p, root)] = ('file', len(data), hashlib.sha1(data).hexdigest(),
                                                 st.st_mtime_ns)
            except OSError:
                out[os.path.relpath(p, root)] = ('unreadable',)
    return out
