"""Syntax / type-chain / DEFVAL generation (C05 and friends).  Integers first, spelling second."""
from vlib import mib
from vlib.mib import Decl, Syn, Lit, DefVal, spell

INT_BOUNDS = {
    'INTEGER': (-2 ** 31, 2 ** 31 - 1), 'Integer32': (-2 ** 31, 2 ** 31 - 1),
    'Unsigned32': (0, 2 ** 32 - 1), 'Gauge32': (0, 2 ** 32 - 1), 'Counter32': (0, 2 ** 32 - 1),
    'Counter64': (0, 2 ** 64 - 1), 'TimeTicks': (0, 2 ** 32 - 1),
    'Counter': (0, 2 ** 32 - 1), 'Gauge': (0, 2 ** 32 - 1),
}
INTERESTING = [0, 1, 2, 7, 8, 127, 128, 255, 256, 65535, 65536, 2 ** 31 - 1, 2 ** 31, 2 ** 32 - 1,
               2 ** 32, 2 ** 63, 2 ** 64 - 1, -1, -128, -2 ** 31]


def pick_int(rng, lo, hi):
    c = [v for v in INTERESTING if lo <= v <= hi]
    if c and rng.random() < 0.6:
        return rng.choice(c)
    span = hi - lo
    return lo + rng.randrange(span + 1) if span < 10 ** 6 else lo + rng.randrange(10 ** 6)


def gen_ranges(rng, lo, hi, nmax=3, strings=True):
    """ordered, non overlapping alternatives inside [lo, hi]; each (Lit, Lit|None)"""
    n = rng.randint(1, nmax)
    pts = sorted(set(pick_int(rng, lo, hi) for _ in range(2 * n)))
    out = []
    i = 0
    while i < len(pts) and len(out) < n:
        a = pts[i]
        if i + 1 < len(pts) and rng.random() < 0.7:
            b = pts[i + 1]
            i += 2
            out.append((spell(rng, a, strings and a >= 0), spell(rng, b, strings and b >= 0)))
        else:
            i += 1
            out.append((spell(rng, a, strings and a >= 0), None))
    return out


def hull(ref):
    """(lo, hi) of the first alternative of a range / size refinement"""
    a, b = ref[1][0]
    return a.value, (b.value if b is not None else a.value)


def sub_ranges(rng, lo, hi, nmax=2, strings=True):
    """refinement nested inside [lo, hi]; None when there is no room"""
    if hi - lo < 1:
        return None
    return gen_ranges(rng, lo, hi, nmax, strings)


def gen_enum(g, n=None):
    rng = g.rng
    n = n or rng.randint(1, 6)
    labels = []
    vals = set()
    out = []
    for _ in range(n):
        for _t in range(50):
            lab = g.namer.label()
            if 'odd_labels' in g.f and rng.random() < 0.03:
                # labels spelled like the keys the generators' own records use
                lab = rng.choice(['oid', 'name', 'class', 'type', 'syntax', 'default', 'bits', 'enumeration', 'module'])
            if lab not in labels:
                break
        v = rng.choice([0, 1, 2, 3, 4, 5, 10, 100, 255, -1, 2 ** 31 - 1, 65536]) if rng.random() < 0.7 \
            else rng.randint(-5, 300)
        if lab in labels or v in vals:
            continue
        labels.append(lab)
        vals.add(v)
        out.append((lab, v))
    return out


def gen_bits(g):
    rng = g.rng
    n = rng.randint(1, 8)
    out = []
    poss = rng.sample(range(0, 24), n)
    if rng.random() < 0.5:
        poss.sort()
    labels = []
    for p in poss:
        lab = g.namer.label()
        if 'odd_labels' in g.f and rng.random() < 0.03:
            lab = rng.choice(['oid', 'name', 'class', 'type', 'syntax', 'default', 'bits', 'enumeration', 'module'])
        if lab in labels:
            continue
        labels.append(lab)
        out.append((lab, p))
    return out


def builtin_syntax(g, mod, allow_bits=True, v1=False, asn1_only=False):
    """Syn over a built-in / application type, maybe refined."""
    rng = g.rng
    choices = ['INTEGER', 'Integer32', 'OCTET STRING', 'OBJECT IDENTIFIER', 'Unsigned32', 'Gauge32',
               'Counter32', 'Counter64', 'TimeTicks', 'IpAddress', 'Opaque', 'enum']
    if asn1_only:
        choices = ['INTEGER', 'INTEGER', 'OCTET STRING', 'OBJECT IDENTIFIER', 'enum']   # nothing to import
    if allow_bits:
        choices.append('BITS')
    w = rng.choice(choices)
    if w == 'BITS':
        s = Syn('BITS', kind='bits', base='Bits')
        s.bits = gen_bits(g)
        mod.need('SNMPv2-SMI', 'BITS') if False else None
        return s
    if w == 'enum':
        s = Syn('INTEGER', ref=('enum', gen_enum(g)), base='Integer32')
        return s
    if w not in ('INTEGER', 'OCTET STRING', 'OBJECT IDENTIFIER'):
        mod.need('SNMPv2-SMI', w)
    s = Syn(w, base=mib.BASE_OF[w])
    r = rng.random()
    if w in ('INTEGER', 'Integer32', 'Unsigned32', 'Gauge32') and r < 0.6:
        lo, hi = INT_BOUNDS[w]
        s.ref = ('range', gen_ranges(rng, lo, hi))
    elif w == 'Counter64' and r < 0.3:
        s.ref = ('range', gen_ranges(rng, 0, 2 ** 64 - 1))
    elif w in ('OCTET STRING', 'Opaque') and r < 0.6:
        s.ref = ('size', gen_ranges(rng, 0, 65535))
    return s


def gen_type(g, mod, plain=False):
    """a type assignment or TEXTUAL-CONVENTION, possibly derived from an earlier named type;
    plain: a type assignment over an ASN.1 built-in type, which needs no IMPORTS at all"""
    rng = g.rng
    name = g.uname(mod)
    named = [(m.name, t) for m in g.modules for t in g.types.get(m.name, [])
             if g.importable(mod, m.name, t.name)]
    parent = None
    if named and not plain and rng.random() < g.p.get('p_chain', 0.5):
        local = [(mn, t) for mn, t in named if mn == mod.name]
        pool = local if (local and rng.random() < 0.6) else named
        pmod, parent = rng.choice(pool)
        if parent.chain >= g.p.get('max_chain', 4):
            parent = None
    if parent is not None:
        syn = Syn(parent.name, base=parent.base, home=pmod)
        syn.parent_decl = parent
        if pmod != mod.name:
            mod.need(pmod, parent.name)
            g.count('type_parent_imported')
        # optional further refinement compatible with the base
        r = rng.random()
        if parent.base == 'Integer32' and parent.enum and r < 0.3:
            sub = rng.sample(parent.enum, rng.randint(1, len(parent.enum)))
            syn.ref = ('enum', sorted(sub, key=lambda x: parent.enum.index(x)))
        elif parent.base == 'Integer32' and not parent.enum and r < 0.3 and parent.written_base != 'Counter64':
            lo, hi = parent.int_hull
            rr = sub_ranges(rng, lo, hi)
            if rr:
                syn.ref = ('range', rr)
        elif parent.base == 'OctetString' and r < 0.3 and not parent.fixed_ip:
            lo, hi = parent.size_hull
            rr = sub_ranges(rng, lo, min(hi, 255) if hi > 255 and lo <= 255 else hi)
            if rr:
                syn.ref = ('size', rr)
        chain = parent.chain + 1
        enum = syn.ref[1] if (syn.ref and syn.ref[0] == 'enum') else parent.enum
        bits = parent.bits
        bounds = parent.bounds
        wb = parent.written_base
        fixed_ip = parent.fixed_ip
        int_hull = hull(syn.ref) if (syn.ref and syn.ref[0] == 'range') else parent.int_hull
        size_hull = hull(syn.ref) if (syn.ref and syn.ref[0] == 'size') else parent.size_hull
        is_tc_chain = parent.is_tc_chain
    else:
        syn = builtin_syntax(g, mod, allow_bits=True, asn1_only=plain)
        if 'tags' in g.f and syn.kind == 'type' and syn.written in ('INTEGER', 'OCTET STRING', 'Integer32') \
                and rng.random() < 0.3:
            syn.tag = (rng.choice(['APPLICATION', 'UNIVERSAL']), rng.randint(0, 30))
            g.count('type_tags')
        chain = 1
        enum = syn.ref[1] if (syn.ref and syn.ref[0] == 'enum') else None
        bits = syn.bits
        wb = syn.written
        bounds = INT_BOUNDS.get(syn.written, (0, 0))
        fixed_ip = syn.written == 'IpAddress'
        int_hull = hull(syn.ref) if (syn.ref and syn.ref[0] == 'range') else bounds
        size_hull = hull(syn.ref) if (syn.ref and syn.ref[0] == 'size') else (4, 4) if fixed_ip else (0, 65535)
        is_tc_chain = False
    make_tc = rng.random() < 0.55 and not plain
    if make_tc and is_tc_chain and 'tc_from_tc' not in g.f:
        make_tc = False         # SMIv2: a TC must not refine another TC (stress switch)
    if make_tc:
        d = Decl('tc', name, syntax=syn)
        g.common(d, mod, 'TEXTUAL-CONVENTION')
        d.display = None
        if syn.base in ('Integer32',) and not enum and rng.random() < 0.4:
            d.display = rng.choice(['d', 'd-2', 'x', 'o', 'b'])
        elif syn.base == 'OctetString' and rng.random() < 0.4:
            d.display = rng.choice(['255a', '1x:', '2d-1d-1d,1d:1d:1d.1d,1a1d:1d', '255t'])
    else:
        d = Decl('type', name, syntax=syn)
        if syn.kind == 'bits' and 'plain_bits_type' not in g.f:
            # `Foo ::= BITS {...}` is legal grammar; keep it
            pass
    d.base, d.enum, d.bits, d.chain, d.bounds = syn.base, enum, bits, chain, bounds
    d.written_base, d.fixed_ip = wb, fixed_ip
    d.int_hull, d.size_hull = int_hull, size_hull
    d.is_tc_chain = is_tc_chain or d.kind == 'tc'
    d.module_name = mod.name
    mod.decls.append(d)
    g.types.setdefault(mod.name, []).append(d)
    g.count('types')
    g.count('type_chain_%d' % min(chain, 4))
    return d


def object_syntax(g, mod):
    rng = g.rng
    named = [(m.name, t) for m in g.modules for t in g.types.get(m.name, [])
             if g.importable(mod, m.name, t.name)]
    r = rng.random()
    if named and r < 0.45:
        pmod, t = rng.choice(named)
        syn = Syn(t.name, base=t.base, home=pmod)
        syn.parent_decl = t
        if pmod != mod.name:
            mod.need(pmod, t.name)
            g.count('object_type_imported')
        rr = rng.random()
        if t.base == 'Integer32' and t.enum and rr < 0.25:
            sub = rng.sample(t.enum, rng.randint(1, len(t.enum)))
            syn.ref = ('enum', sorted(sub, key=lambda x: t.enum.index(x)))
        elif t.base == 'Integer32' and not t.enum and rr < 0.25 and t.written_base != 'Counter64':
            r2 = sub_ranges(rng, t.int_hull[0], t.int_hull[1])
            if r2:
                syn.ref = ('range', r2)
        elif t.base == 'OctetString' and rr < 0.25 and not t.fixed_ip:
            lo, hi = t.size_hull
            r2 = sub_ranges(rng, lo, min(hi, 255) if hi > 255 and lo <= 255 else hi)
            if r2:
                syn.ref = ('size', r2)
        syn.int_hull = hull(syn.ref) if (syn.ref and syn.ref[0] == 'range') else t.int_hull
        syn.size_hull = hull(syn.ref) if (syn.ref and syn.ref[0] == 'size') else t.size_hull
        syn.enum = syn.ref[1] if (syn.ref and syn.ref[0] == 'enum') else t.enum
        syn.bits_eff = t.bits
        syn.bounds = t.bounds
        syn.chain = t.chain
        return syn
    if r < 0.55 and 'smi_tc' in g.f:
        tc = rng.choice(['DisplayString', 'TruthValue', 'PhysAddress', 'MacAddress'])
        mod.need('SNMPv2-TC', tc)
        syn = Syn(tc, base='Integer32' if tc == 'TruthValue' else 'OctetString', home='SNMPv2-TC')
        syn.enum = [('true', 1), ('false', 2)] if tc == 'TruthValue' else None
        syn.bits_eff = None
        syn.bounds = (1, 2)
        syn.int_hull = (1, 2)
        syn.size_hull = {'DisplayString': (0, 255), 'MacAddress': (6, 6)}.get(tc, (0, 65535))
        syn.chain = 1
        return syn
    syn = builtin_syntax(g, mod)
    syn.enum = syn.ref[1] if (syn.ref and syn.ref[0] == 'enum') else None
    syn.bits_eff = syn.bits
    syn.bounds = INT_BOUNDS.get(syn.written, (0, 0))
    syn.int_hull = hull(syn.ref) if (syn.ref and syn.ref[0] == 'range') else syn.bounds
    syn.size_hull = hull(syn.ref) if (syn.ref and syn.ref[0] == 'size') else (
        (4, 4) if syn.written == 'IpAddress' else (0, 65535))
    syn.chain = 0
    return syn


def maybe_defval(g, mod, d):
    """attach a DEFVAL compatible with the base type; stress notations behind feature switches"""
    rng = g.rng
    if rng.random() > g.p.get('p_defval', 0.6):
        return
    syn = d.syntax
    base = syn.base
    f = g.f
    if base == 'Integer32':
        enum = getattr(syn, 'enum', None)
        if enum:
            lab, val = rng.choice(enum)
            if rng.random() < 0.8:
                d.defval = DefVal('enum', lab, extra=val)
            else:
                d.defval = DefVal('number', val, spelling=str(val))
            return
        lo, hi = getattr(syn, 'int_hull', getattr(syn, 'bounds', (0, 0)))
        v = pick_int(rng, lo, hi)
        if v == 0 and 'defval_zero' not in f:
            v = 1 if lo <= 1 <= hi else (hi if hi != 0 else lo)
            if v == 0:
                return
        r = rng.random()
        if v >= 0 and r < 0.2:
            lit = spell(rng, v)
            while lit.spelling[0] != "'":
                lit = spell(rng, v)
            kind = 'hex' if lit.spelling[-1] in 'hH' else 'bin'
            d.defval = DefVal(kind, v, spelling=lit.spelling)
        else:
            d.defval = DefVal('number', v, spelling=str(v))
    elif base == 'OctetString':
        if getattr(syn, 'written', '') in ('IpAddress', 'NetworkAddress') or \
                getattr(getattr(syn, 'parent_decl', None), 'fixed_ip', False):
            d.defval = DefVal('hex', 0x0a000001, spelling="'0A000001'h")
            return
        slo, shi = getattr(syn, 'size_hull', (0, 65535))
        shi = min(shi, slo + 12, 40) if shi >= slo else slo
        if slo > 40:
            return
        r = rng.random()
        if r < 0.5:
            n = rng.randint(slo, max(slo, shi))
            s_ = ''.join(rng.choice('abcdefghij klmnop') for _ in range(n))
            if 'defval_hostile_string' in f and n >= 2 and rng.random() < 0.4:
                # line breaks, backslashes and apostrophes are legal inside a quoted default
                k = rng.randrange(1, n)
                piece = rng.choice(['\n', '\r\n', '\r', '\\', "'", '\\n', '\t'])
                s_ = (s_[:k] + piece + s_[k:])[:max(n, len(piece) + 1)] if len(piece) < n else s_
            if s_ == '' and 'defval_empty_string' not in f:
                if shi < 1:
                    return
                s_ = 'x' * max(1, slo)
            d.defval = DefVal('string', s_)
        elif r < 0.85:
            n = rng.randint(slo, max(slo, shi))
            if n == 0 and 'defval_empty_hex' not in f:
                if shi < 1:
                    return
                n = max(1, slo)
            digits = ''.join(rng.choice('0123456789ABCDEFabcdef') for _ in range(2 * n))
            if n and rng.random() < 0.3:
                digits = (rng.choice(['0', '00', '000']) + digits)[:2 * n]
            d.defval = DefVal('hex', int(digits, 16) if digits else 0, spelling="'%s'%s" % (digits, rng.choice('hH')))
        elif 'defval_bin_octets' in f:
            if shi < 1:
                return
            n = rng.randint(max(1, slo), max(1, slo, min(shi, max(1, slo) + 2)))
            digits = ''.join(rng.choice('01') for _ in range(8 * n))
            if rng.random() < 0.5:
                # leading zero bits / a leading zero octet are part of the value of a string
                k = rng.choice([4, 8, 12])
                digits = ('0' * k + digits)[:8 * n]
            d.defval = DefVal('bin', int(digits, 2), spelling="'%s'%s" % (digits, rng.choice('bB')))
    elif base == 'Bits':
        bits = getattr(syn, 'bits_eff', None) or syn.bits
        if bits and 'defval_bits' in f:
            chosen = rng.sample(bits, rng.randint(1, len(bits)))
            d.defval = DefVal('bits', [b[0] for b in chosen], extra=dict(chosen))
    elif base == 'ObjectIdentifier':
        if 'defval_oid' in f:
            keys = list(mod.node_keys) + [k for m in g.modules if m is not mod for k in m.node_keys
                                          if g.importable(mod, k[0], k[1])]
            if keys:
                key = rng.choice(keys)
                if key[0] != mod.name:
                    mod.need(key[0], key[1])
                d.defval = DefVal('oid', key[1], extra=g.nodes[key].oid.truth)
                d.defval.module = key[0]
