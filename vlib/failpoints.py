"""Source-free failpoints: a sys.monitoring LINE callback that raises a package error at the
k-th executed line inside chosen pysmi sub-packages (never inside compiler.py)."""
import os
import sys

from vlib import env

TOOL = 4
PACKAGES = ('codegen', 'parser', 'lexer', 'searcher', 'borrower', 'reader', 'writer')


class LineFailpoints(object):
    def __init__(self):
        base = os.path.join(env.REPO, 'pysmi') + os.sep
        self.roots = tuple(base + p + os.sep for p in PACKAGES)
        self.count = 0
        self.target = None
        self.hit = None
        self.armed = False

    def _exc(self, filename, line):
        from pysmi import error
        part = filename[len(os.path.join(env.REPO, 'pysmi')) + 1:].split(os.sep)[0]
        cls = {'codegen': error.PySmiCodegenError, 'parser': error.PySmiParserError,
               'lexer': error.PySmiLexerError, 'searcher': error.PySmiSearcherError,
               'borrower': error.PySmiError, 'reader': error.PySmiReaderError,
               'writer': error.PySmiWriterError}[part]
        kw = {'lineno': 1} if part in ('parser', 'lexer') else {}
        e = cls('injected failpoint at %s:%d' % (os.path.basename(filename), line), **kw)
        e.injected = True
        return e

    def _line(self, code, line):
        fn = code.co_filename
        if not fn.startswith(self.roots):
            return sys.monitoring.DISABLE
        if not self.armed:
            return None
        n = self.count
        self.count += 1
        if self.target is not None and n == self.target:
            self.hit = (fn[len(env.REPO) + 1:], line, code.co_qualname)
            self.armed = False
            raise self._exc(fn, line)

    def run(self, fn, target=None):
        """run fn() counting line events; raise at the target-th one"""
        mon = sys.monitoring
        mon.use_tool_id(TOOL, 'verif-failpoints')
        try:
            mon.register_callback(TOOL, mon.events.LINE, self._line)
            mon.set_events(TOOL, mon.events.LINE)
            mon.restart_events()
            self.count = 0
            self.target = target
            self.hit = None
            self.armed = True
            try:
                return fn()
            finally:
                self.armed = False
        finally:
            mon.set_events(TOOL, 0)
            mon.register_callback(TOOL, mon.events.LINE, None)
            mon.free_tool_id(TOOL)
