"""Component doubles and wrappers handed to the real MibCompiler, all logging to one Trace.

Every call is recorded *before* it is forwarded ('call') and again with its outcome
('ret' / 'raise'), with monotonically increasing sequence numbers, at the component
boundary - i.e. exactly what compile() itself can see.
"""
import time


class Trace(object):
    def __init__(self):
        self.events = []

    def add(self, comp, op, phase, **kw):
        ev = {'n': len(self.events), 'comp': comp, 'op': op, 'phase': phase}
        ev.update(kw)
        self.events.append(ev)
        return ev

    def select(self, comp=None, op=None, phase=None, **kw):
        out = []
        for e in self.events:
            if comp is not None and e['comp'] != comp and not e['comp'].startswith(comp + ':'):
                continue
            if op is not None and e['op'] != op:
                continue
            if phase is not None and e['phase'] != phase:
                continue
            if any(e.get(k) != v for k, v in kw.items()):
                continue
            out.append(e)
        return out

    def shape(self):
        """sequence of (component kind, op, outcome) - used to count distinct traces"""
        return tuple((e['comp'].split(':')[0], e['op'], e['phase']) for e in self.events
                     if e['phase'] != 'call')


def _err(errors, kind, msg, **kw):
    cls = {
        'reader': errors.PySmiReaderError, 'generic': errors.PySmiError,
        'notfound': errors.PySmiReaderFileNotFoundError,
        'searcher': errors.PySmiSearcherError, 'codegen': errors.PySmiCodegenError,
        'semantic': errors.PySmiSemanticError, 'writer': errors.PySmiWriterError,
        'parser': errors.PySmiParserError, 'lexer': errors.PySmiLexerError,
        'syntax': errors.PySmiSyntaxError,
    }[kind]
    e = cls(msg, **kw)
    e.injected = True
    return e


class SourceD(object):
    """Reader double.  table: name -> text | ('error', kind) ; absent names are not found."""

    def __init__(self, trace, ident, table, mtime=100, alias=None):
        self.trace, self.ident, self.table, self.mtime = trace, ident, table, mtime
        self.alias = alias      # None | 'lower': report the file under another (lower-case) name
        self.injected = {}

    def __str__(self):
        return 'SourceD(%s)' % self.ident

    def setOptions(self, **kw):
        return self

    def getData(self, mibname, **options):
        from pysmi import error
        from pysmi.mibinfo import MibInfo
        comp = 'source:%s' % self.ident
        if len(self.trace.events) > 20000:
            # logical progress bound: compile() keeps asking - stop it instead of hanging the worker
            raise RuntimeError('progress bound exceeded: %d boundary events, still fetching %s' % (
                len(self.trace.events), mibname))
        self.trace.add(comp, 'getData', 'call', name=mibname)
        v = self.table.get(mibname)
        if v is None:
            self.trace.add(comp, 'getData', 'raise', name=mibname, exc='notfound')
            raise error.PySmiReaderFileNotFoundError('source MIB %s not found' % mibname, reader=self)
        if isinstance(v, tuple) and v[0] == 'error':
            exc = _err(error, v[1], 'injected %s error for %s at %s' % (v[1], mibname, self.ident))
            self.injected[mibname] = exc
            self.trace.add(comp, 'getData', 'raise', name=mibname, exc=v[1], err=exc)
            raise exc
        # every file of every source has a modification time of its own
        import zlib
        mtime = self.mtime + zlib.crc32(('%s/%s' % (self.ident, mibname)).encode()) % 5000
        self.trace.add(comp, 'getData', 'ret', name=mibname, text=v, mtime=mtime)
        name = mibname.lower() if self.alias == 'lower' else mibname
        return MibInfo(path='dbl://%s/%s' % (self.ident, mibname), file=name + '.txt',
                       name=name, mtime=mtime), v


class ParserW(object):
    """Wrapper around a real parser; `script` maps a text tag substring -> error kind."""

    def __init__(self, trace, real, script=None):
        self.trace, self.real, self.script = trace, real, script or {}
        self.injected = []

    def reset(self):
        self.real.reset()

    def parse(self, data, **kw):
        from pysmi import error
        self.trace.add('parser', 'parse', 'call', text=data)
        for tag, kind in self.script.items():
            if tag in data:
                exc = _err(error, kind, 'injected %s error for text tagged %s' % (kind, tag), lineno=1)
                self.injected.append((tag, exc))
                self.trace.add('parser', 'parse', 'raise', text=data, exc=kind, err=exc)
                raise exc
        try:
            out = self.real.parse(data, **kw)
        except BaseException as exc:
            self.trace.add('parser', 'parse', 'raise', text=data, exc=type(exc).__name__, err=exc)
            raise
        self.trace.add('parser', 'parse', 'ret', text=data, modules=[m[0] for m in out])
        return out


class CodegenW(object):
    """Wrapper around a real code generator; `script` maps module name -> error kind."""

    def __init__(self, trace, real, script=None):
        self.trace, self.real, self.script = trace, real, script or {}
        self.injected = {}
        self.baseMibs = real.baseMibs
        self.fakeMibs = getattr(real, 'fakeMibs', ())

    def genCode(self, ast, symbolTable, **kw):
        from pysmi import error
        name = ast[0]
        self.trace.add('codegen', 'genCode', 'call', name=name, opts=dict(
            (k, v) for k, v in kw.items() if k in ('genTexts', 'dstTemplate')))
        if name in self.script:
            exc = _err(error, self.script[name], 'injected codegen error for %s' % name)
            self.injected[name] = exc
            self.trace.add('codegen', 'genCode', 'raise', name=name, exc=self.script[name], err=exc)
            raise exc
        try:
            info, text = self.real.genCode(ast, symbolTable, **kw)
        except BaseException as exc:
            self.trace.add('codegen', 'genCode', 'raise', name=name, exc=type(exc).__name__, err=exc)
            raise
        self.trace.add('codegen', 'genCode', 'ret', name=name, text=text)
        return info, text

    def genIndex(self, *a, **kw):
        return self.real.genIndex(*a, **kw)


class SearcherD(object):
    """table: name -> 'fresh' | 'absent' | 'error'; honours `rebuild` like the real ones
    unless stub=True (explicit stub lists ignore rebuild)."""

    def __init__(self, trace, ident, table, stub=False):
        self.trace, self.ident, self.table, self.stub = trace, ident, table, stub

    def __str__(self):
        return 'SearcherD(%s)' % self.ident

    def setOptions(self, **kw):
        return self

    def fileExists(self, mibname, mtime, rebuild=False):
        from pysmi import error
        comp = 'searcher:%s' % self.ident
        self.trace.add(comp, 'fileExists', 'call', name=mibname, rebuild=bool(rebuild), mtime=mtime)
        v = self.table.get(mibname, 'absent')
        if rebuild and not self.stub:
            self.trace.add(comp, 'fileExists', 'ret', name=mibname, answer='rebuild')
            return
        if v == 'fresh':
            self.trace.add(comp, 'fileExists', 'raise', name=mibname, answer='fresh')
            raise error.PySmiFileNotModifiedError('%s is fresh at %s' % (mibname, self.ident), searcher=self)
        if v == 'error':
            exc = _err(error, 'searcher', 'injected searcher error for %s at %s' % (mibname, self.ident))
            self.trace.add(comp, 'fileExists', 'raise', name=mibname, answer='error', err=exc)
            raise exc
        self.trace.add(comp, 'fileExists', 'raise', name=mibname, answer='absent')
        raise error.PySmiFileNotFoundError('no %s at %s' % (mibname, self.ident), searcher=self)


class BorrowReaderD(object):
    """Reader placed inside a real AnyFileBorrower / PyFileBorrower."""

    def __init__(self, trace, ident, table, alias=None):
        self.trace, self.ident, self.table = trace, ident, table
        self.alias = alias      # None | 'lower': the copy is found under another spelling of the name
        self.injected = {}

    def __str__(self):
        return 'BorrowReaderD(%s)' % self.ident

    def setOptions(self, **kw):
        return self

    def getData(self, mibname, **options):
        from pysmi import error
        from pysmi.mibinfo import MibInfo
        comp = 'borrower:%s' % self.ident
        self.trace.add(comp, 'getData', 'call', name=mibname,
                       opts=dict((k, v) for k, v in options.items() if k in ('genTexts', 'exts')))
        v = self.table.get(mibname)
        if v is None:
            self.trace.add(comp, 'getData', 'raise', name=mibname, exc='notfound')
            raise error.PySmiReaderFileNotFoundError('no %s to borrow at %s' % (mibname, self.ident))
        if isinstance(v, tuple) and v[0] == 'error':
            exc = _err(error, v[1], 'injected borrower error for %s at %s' % (mibname, self.ident))
            self.injected[mibname] = exc
            self.trace.add(comp, 'getData', 'raise', name=mibname, exc=v[1], err=exc)
            raise exc
        self.trace.add(comp, 'getData', 'ret', name=mibname, text=v)
        found = mibname.lower() if self.alias == 'lower' else mibname
        return MibInfo(path='bor://%s/%s' % (self.ident, found), file=found + '.out',
                       name=found, mtime=50), v


class WriterD(object):
    """script: name -> 'error'"""

    def __init__(self, trace, script=None):
        self.trace, self.script = trace, script or {}
        self.injected = {}
        self.store = {}

    def __str__(self):
        return 'WriterD'

    def setOptions(self, **kw):
        return self

    def getData(self, filename):
        return self.store.get(filename, '')

    def putData(self, mibname, data, comments=(), dryRun=False):
        from pysmi import error
        self.trace.add('writer', 'putData', 'call', name=mibname, text=data, dryRun=bool(dryRun))
        if self.script.get(mibname) == 'error':
            exc = _err(error, 'writer', 'injected writer error for %s' % mibname)
            self.injected[mibname] = exc
            self.trace.add('writer', 'putData', 'raise', name=mibname, err=exc)
            raise exc
        if not dryRun:
            self.store[mibname] = data
        self.trace.add('writer', 'putData', 'ret', name=mibname, text=data, dryRun=bool(dryRun))
