"""Compile a generated module set with both back ends and expose the observable outputs."""
from vlib import pipeline


class Compiled(object):
    def __init__(self, g, texts, backends=('json', 'pysnmp'), load_texts=False, **opts):
        self.g = g
        self.texts = texts
        self.names = [m.name for m in g.modules]
        self.results = {}
        self.written = {}
        self.raised = {}
        self.docs = {}
        self.json_errors = {}
        self.rb = None
        for b in backends:
            try:
                r, w = pipeline.compile_set(texts, list(reversed(self.names)), codegen=b, **opts)
                self.results[b], self.written[b] = r, w
            except Exception as exc:  # judged by the caller
                self.raised[b] = exc
        if 'json' in self.results:
            for n in self.names:
                if self.results['json'].get(n) == 'compiled' and n in self.written['json']:
                    try:
                        self.docs[n] = pipeline.load_json(self.written['json'][n][-1])
                    except Exception as exc:
                        self.json_errors[n] = exc
        if 'pysnmp' in self.results:
            pyt = dict((n, self.written['pysnmp'][n][-1]) for n in self.names
                       if self.results['pysnmp'].get(n) == 'compiled' and n in self.written['pysnmp'])
            self.pytexts = pyt
            self.rb = pipeline.RecBuilder(pyt, load_texts=load_texts)
            self.rb.run_all()

    def status_problems(self):
        """[(backend, module, status, error)] for modules that did not compile"""
        out = []
        for b, r in self.results.items():
            for n in self.names:
                if r.get(n) != 'compiled':
                    out.append((b, n, str(r.get(n)), getattr(r.get(n), 'error', None)))
        for b, exc in self.raised.items():
            out.append((b, '*', 'raised', exc))
        return out

    def ns(self, module):
        if self.rb is None or module not in self.rb.namespaces or module in self.rb.errors:
            return None
        return self.rb.namespaces[module]

    def exec_error(self, module):
        return self.rb.errors.get(module) if self.rb else None
