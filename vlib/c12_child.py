"""Child for the C12 hash-seed sweep: compiles a deterministic corpus and prints digests.
usage: c12_child.py <corpus seed> <n sets>   (PYTHONHASHSEED is set by the parent)"""
import hashlib
import json
import os
import random
import sys

sys.path.insert(0, os.path.dirname(os.path.dirname(os.path.abspath(__file__))))
from vlib import env  # noqa
env.pin()
import warnings  # noqa
warnings.simplefilter('ignore')


def dg(x):
    return hashlib.sha1(x.encode('utf-8', 'replace')).hexdigest()[:16]


def main():
    from vlib import pipeline
    from checks import c12_determinism as c12
    seed, n = sys.argv[1], int(sys.argv[2])
    out = {}
    for i in range(n):
        rng = random.Random('%s:corpus:%d' % (seed, i))
        g = c12.make_set(rng, 'quick')
        texts = g.texts()
        names = [m.name for m in g.modules]
        p = pipeline.make_parser('smiV1Relaxed')
        for nme in names:
            out['%d:%s:tree' % (i, nme)] = dg(repr(p.parse(texts[nme])))
        for backend in ('json', 'pysnmp'):
            try:
                results, written = pipeline.compile_set(texts, names, codegen=backend, genTexts=bool(i % 2))
            except Exception as exc:
                out['%d:%s:raised' % (i, backend)] = repr(exc)[:100]
                continue
            for nme in names:
                st = results.get(nme)
                out['%d:%s:%s:status' % (i, nme, backend)] = str(st)
                if nme in written:
                    out['%d:%s:%s:text' % (i, nme, backend)] = dg(c12.mask(written[nme][-1]))
                    out['%d:%s:%s:TEXT' % (i, nme, backend)] = c12.mask(written[nme][-1]) if os.environ.get('C12_FULL') else ''
                out['%d:%s:%s:summary' % (i, nme, backend)] = dg(repr([
                    getattr(st, a, None) if a != 'oids' else sorted(getattr(st, 'oids', ()) or ())
                    for a in ('identity', 'revision', 'oids', 'enterprise', 'compliance')]))
                if st == 'failed':
                    e = getattr(st, 'error', None)
                    out['%d:%s:%s:error' % (i, nme, backend)] = '%s:%s' % (type(e).__name__, getattr(e, 'lineno', None))
    print(json.dumps(out))
    return 0


if __name__ == '__main__':
    sys.exit(main())
