"""Drivers around the real pysmi pipeline + output observers (JSON, executed pysnmp)."""
import json
import os

from vlib import env

_FIX = None

BASE_STUBS = ('RFC1065-SMI', 'RFC1155-SMI', 'RFC1158-MIB', 'RFC-1212', 'RFC1213-MIB', 'RFC-1215',
              'SNMPv2-SMI', 'SNMPv2-TC', 'SNMPv2-TM', 'SNMPv2-CONF')
HOME_STUBS = ('SNMPv2-MIB', 'IF-MIB', 'IP-MIB', 'TCP-MIB', 'UDP-MIB')


def fixtures():
    global _FIX
    if _FIX is None:
        _FIX = {}
        for fn in os.listdir(env.FIXTURES):
            with open(os.path.join(env.FIXTURES, fn)) as f:
                _FIX[fn] = f.read()
    return _FIX


def make_parser(dialect='smiV1Relaxed'):
    from pysmi.parser.smi import parserFactory
    from pysmi.parser import dialect as dl
    opts = getattr(dl, dialect) if isinstance(dialect, str) else dialect
    return parserFactory(**opts)()


def make_codegen(kind):
    if kind == 'json':
        from pysmi.codegen.jsondoc import JsonCodeGen
        return JsonCodeGen()
    if kind == 'pysnmp':
        from pysmi.codegen.pysnmp import PySnmpCodeGen
        return PySnmpCodeGen()
    if kind == 'null':
        from pysmi.codegen.null import NullCodeGen
        return NullCodeGen()
    raise ValueError(kind)


def compile_set(texts, requested, codegen='json', dialect='smiV1Relaxed', stubs=None,
                parser=None, compiler_hook=None, via_files=False, **opts):
    """Run the real MibCompiler over in-memory texts (+ base fixtures).

    Returns (results, written) where written maps module name -> text handed to the writer
    (a list when it happened more than once)."""
    from pysmi.reader.callback import CallbackReader
    from pysmi.writer.callback import CallbackWriter
    from pysmi.searcher.stub import StubSearcher
    from pysmi.compiler import MibCompiler

    allt = dict(fixtures())
    allt.update(texts)
    written = {}

    def put(name, data, ctx):
        written.setdefault(name, []).append(data)

    c = MibCompiler(parser or make_parser(dialect),
                    codegen if not isinstance(codegen, str) else make_codegen(codegen),
                    CallbackWriter(put))
    tmpd = None
    if via_files:
        # the texts go through a real directory and the real FileReader, byte for byte as they are
        import tempfile
        from pysmi.reader import FileReader
        from vlib import env
        tmpd = tempfile.mkdtemp(prefix='verif-src-', dir=env.scratch_root())
        for name, text in allt.items():
            with open(os.path.join(tmpd, name), 'wb') as f:
                f.write(text.encode('utf-8'))
        c.addSources(FileReader(tmpd))
    else:
        c.addSources(CallbackReader(lambda name, ctx: allt.get(name)))
    c.addSearchers(StubSearcher(*(stubs if stubs is not None else BASE_STUBS + HOME_STUBS)))
    if compiler_hook:
        compiler_hook(c)
    try:
        res = c.compile(*requested, **opts)
    finally:
        if tmpd:
            import shutil
            shutil.rmtree(tmpd, ignore_errors=True)
    return res, written


# ---------------------------------------------------------------------------- JSON

class DuplicateKey(ValueError):
    pass


def _no_dups(pairs):
    d = {}
    for k, v in pairs:
        if k in d:
            raise DuplicateKey(k)
        d[k] = v
    return d


def load_json(text):
    return json.loads(text, object_pairs_hook=_no_dups)


# ---------------------------------------------------------------------------- pysnmp

_BASE_BUILDER = {}


def base_builder(load_texts):
    from pysnmp.smi import builder
    b = _BASE_BUILDER.get(bool(load_texts))
    if b is None:
        b = builder.MibBuilder()
        b.loadTexts = bool(load_texts)
        _BASE_BUILDER[bool(load_texts)] = b
    return b


class MissingExport(Exception):
    pass


class DependencyFailed(Exception):
    """a generated module this one imports from could not be executed itself"""


class RecBuilder(object):
    """Recording stand-in for pysnmp's MibBuilder.

    Symbols of generated modules are resolved against what those modules exported when
    they were executed (on demand, in dependency order); everything else is delegated to a
    real MibBuilder holding pysnmp's own compiled base modules."""

    def __init__(self, outputs, load_texts=True):
        self.outputs = outputs          # module -> python text
        self.loadTexts = bool(load_texts)
        self.base = base_builder(load_texts)
        self.exports = {}               # module -> {name: object}
        self.namespaces = {}
        self.import_calls = []          # (importer, module, symbols)
        self.export_calls = []
        self.errors = {}                # module -> exception
        self._stack = []

    def run(self, module):
        if module in self.namespaces or module in self.errors:
            return
        if module in self._stack:       # import cycle between generated modules
            return
        self._stack.append(module)
        ns = {'mibBuilder': self}
        try:
            code = compile(self.outputs[module], module, 'exec')
            exec(code, ns, ns)
            self.namespaces[module] = ns
        except BaseException as exc:  # noqa: recorded and judged by the caller
            self.errors[module] = exc
            self.namespaces.setdefault(module, ns)
        finally:
            self._stack.pop()

    def run_all(self):
        for m in self.outputs:
            self.run(m)

    def importSymbols(self, modName, *symNames):
        importer = self._stack[-1] if self._stack else None
        self.import_calls.append((importer, modName, symNames))
        if modName in self.outputs:
            self.run(modName)
            if modName in self.errors:
                raise DependencyFailed('%s needs %s which failed to execute' % (importer, modName))
            exp = self.exports.get(modName, {})
            out = []
            for s in symNames:
                if s not in exp:
                    raise MissingExport('%s imports %s from %s which does not export it' % (
                        importer, s, modName))
                out.append(exp[s])
            return tuple(out)
        return self.base.import_symbols(modName, *symNames)

    import_symbols = importSymbols

    def exportSymbols(self, modName, *anon, **named):
        self.export_calls.append((modName, tuple(sorted(named))))
        self.exports.setdefault(modName, {}).update(named)

    export_symbols = exportSymbols


def load_together(outputs, load_texts=False):
    """Write generated modules to a temp dir and load them with a real MibBuilder."""
    import shutil
    import tempfile
    from pysnmp.smi import builder
    d = tempfile.mkdtemp(prefix='verif-load-', dir=env.scratch_root())
    try:
        for name, text in outputs.items():
            with open(os.path.join(d, name + '.py'), 'w') as f:
                f.write(text)
        b = builder.MibBuilder()
        b.loadTexts = bool(load_texts)
        b.add_mib_sources(builder.DirMibSource(d))
        b.load_modules(*sorted(outputs))
        return b
    finally:
        shutil.rmtree(d, ignore_errors=True)
