"""Token list -> text, with layout noise that must not change the token sequence.

Layout = spaces, tabs, blank lines, LF / CRLF / CR line ends, `-- comment` up to a line
end.  Two word-like tokens are always separated; separators next to raw blocks (MACRO /
EXPORTS / CHOICE bodies) are plain whitespace because the lexer treats everything there
as block content.
"""
from vlib.mib import PUNCT

RAW_KEYWORDS = ('MACRO', 'EXPORTS', 'CHOICE')
COMMENT_WORDS = ['END', 'BEGIN', 'OBJECT-TYPE', '"', "'", '::=', '{', '}', 'IMPORTS', ';',
                 'DESCRIPTION "x', 'foo', 'bar baz', 'éü', '1234', "'FF'h", 'MACRO',
                 'x -', '- y', 'CHOICE', '(', ')']


def is_punct(tok):
    return tok in PUNCT


class Layout(object):
    """style: 'plain' (single spaces / LF per declaration) or 'noisy'."""

    def __init__(self, rng=None, style='plain', eol=None, comments=True):
        self.rng = rng
        self.style = style
        self.eol = eol
        self.comments = comments
        self.stats = {}

    def _count(self, k):
        self.stats[k] = self.stats.get(k, 0) + 1

    def newline(self):
        if self.eol is not None:
            return self.eol
        r = self.rng.random()
        if r < 0.6:
            return '\n'
        if r < 0.85:
            self._count('crlf')
            return '\r\n'
        self._count('cr')
        return '\r'

    def comment(self):
        rng = self.rng
        words = [rng.choice(COMMENT_WORDS) for _ in range(rng.randint(0, 4))]
        self._count('comment')
        return '--' + ' '.join(words)

    def sep(self, left, right, raw):
        """separator between two tokens"""
        if self.style == 'plain':
            return ' '
        rng = self.rng
        must = not (is_punct(left) or is_punct(right))
        if raw:
            return rng.choice([' ', '\n', '  ', '\t', ' \n '])
        r = rng.random()
        if r < 0.45:
            if not must and rng.random() < 0.5:
                self._count('glued')
                return ''
            return ' '
        if r < 0.6:
            self._count('tab')
            return rng.choice(['\t', '  ', ' \t ', '   '])
        if r < 0.8:
            return self.newline() + ' ' * rng.randint(0, 6)
        if r < 0.9:
            self._count('blankline')
            return self.newline() + rng.choice(['', ' ', '\t']) + self.newline()
        if self.comments:
            # a comment runs to the end of the line
            lead = rng.choice(['', ' ', '\t']) if is_punct(left) else rng.choice([' ', '\t'])
            return lead + self.comment() + self.newline() + ' ' * rng.randint(0, 3)
        return ' '

    def join(self, toks, trailer=True, spans=None):
        """spans: optional list receiving (start, end) of every token in the returned text"""
        out = []
        prev = None
        pos = 0
        for t in toks:
            if prev is not None:
                raw = (prev in RAW_KEYWORDS) or getattr(t, 'raw', False) or \
                    getattr(prev, 'raw', False)
                s = self.sep(prev, t, raw)
                out.append(s)
                pos += len(s)
            out.append(t)
            if spans is not None:
                spans.append((pos, pos + len(t)))
            pos += len(t)
            prev = t
        text = ''.join(out)
        if self.style == 'plain':
            return text + '\n'
        rng = self.rng
        if trailer:
            r = rng.random()
            if r < 0.3:
                text += self.newline()
            elif r < 0.5 and self.comments:
                text += ' ' + self.comment()          # comment at EOF, no line end
                self._count('comment_at_eof')
            elif r < 0.7:
                text += ' \t' + self.newline() + self.newline()
        if rng.random() < 0.3:
            lead = self.newline() + ((self.comment() + self.newline()) if self.comments else '')
            text = lead + text
            if spans is not None:
                spans[:] = [(a + len(lead), b + len(lead)) for a, b in spans]
        return text


def render_module(mod, lay=None):
    lay = lay or Layout()
    return lay.join(mod.tokens())


def render_file(mods, lay=None):
    lay = lay or Layout()
    toks = []
    for m in mods:
        toks += m.tokens()
    return lay.join(toks)


class Raw(str):
    """a token whose neighbourhood must stay comment free (block bodies)"""
    raw = True
