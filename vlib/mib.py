"""MIB model with ground truth attached, token rendering and the expected syntax tree.

Nothing here imports pysmi: the model is the independent oracle.  A declaration is a
`Decl` with a `kind` and plain attributes; `tokens(d)` gives the token list of its text,
`ast(d)` the tuple tree the grammar actions are documented to build for it.
"""

RESERVED = set('''ACCESS AGENT-CAPABILITIES APPLICATION AUGMENTS BEGIN BITS CONTACT-INFO
CREATION-REQUIRES Counter Counter32 Counter64 DEFINITIONS DEFVAL DESCRIPTION DISPLAY-HINT END
ENTERPRISE EXTENDS FROM GROUP Gauge Gauge32 IDENTIFIER IMPLICIT IMPLIED IMPORTS INCLUDES INDEX
INSTALL-ERRORS INTEGER Integer32 IpAddress LAST-UPDATED MANDATORY-GROUPS MAX-ACCESS MIN-ACCESS
MODULE MODULE-COMPLIANCE MODULE-IDENTITY NOTIFICATION-GROUP NOTIFICATION-TYPE NOTIFICATIONS
OBJECT OBJECT-GROUP OBJECT-IDENTITY OBJECT-TYPE OBJECTS OCTET OF ORGANIZATION Opaque PIB-ACCESS
PIB-DEFINITIONS PIB-INDEX PIB-MIN-ACCESS PIB-REFERENCES PIB-TAG POLICY-ACCESS PRODUCT-RELEASE
REFERENCE REVISION SEQUENCE SIZE STATUS STRING SUBJECT-CATEGORIES SUPPORTS SYNTAX
TEXTUAL-CONVENTION TimeTicks TRAP-TYPE UNIQUENESS UNITS UNIVERSAL Unsigned32 VALUE VARIABLES
VARIATION WRITE-SYNTAX NetworkAddress MAX MACRO EXPORTS CHOICE'''.split())
FORBIDDEN = set('''ABSENT ANY BIT BOOLEAN BY COMPONENT COMPONENTS DEFAULT DEFINED ENUMERATED
EXPLICIT EXTERNAL FALSE MAX MIN MINUS-INFINITY NULL OPTIONAL PLUS-INFINITY PRESENT PRIVATE REAL
SET TAGS TRUE WITH'''.split())

PUNCT = set(['{', '}', '(', ')', ',', ';', '|', '..', '::=', '[', ']'])

# what SNMPv2-SMI (fixture) defines: name -> absolute OID
SMI_ROOTS = {
    'org': (1, 3), 'dod': (1, 3, 6), 'internet': (1, 3, 6, 1), 'directory': (1, 3, 6, 1, 1),
    'mgmt': (1, 3, 6, 1, 2), 'mib-2': (1, 3, 6, 1, 2, 1), 'transmission': (1, 3, 6, 1, 2, 1, 10),
    'experimental': (1, 3, 6, 1, 3), 'private': (1, 3, 6, 1, 4), 'enterprises': (1, 3, 6, 1, 4, 1),
    'security': (1, 3, 6, 1, 5), 'snmpV2': (1, 3, 6, 1, 6), 'snmpDomains': (1, 3, 6, 1, 6, 1),
    'snmpProxys': (1, 3, 6, 1, 6, 2), 'snmpModules': (1, 3, 6, 1, 6, 3),
}

MACRO_HOME = {
    'MODULE-IDENTITY': 'SNMPv2-SMI', 'OBJECT-TYPE': 'SNMPv2-SMI', 'OBJECT-IDENTITY': 'SNMPv2-SMI',
    'NOTIFICATION-TYPE': 'SNMPv2-SMI', 'TEXTUAL-CONVENTION': 'SNMPv2-TC',
    'OBJECT-GROUP': 'SNMPv2-CONF', 'NOTIFICATION-GROUP': 'SNMPv2-CONF',
    'MODULE-COMPLIANCE': 'SNMPv2-CONF', 'AGENT-CAPABILITIES': 'SNMPv2-CONF',
    'TRAP-TYPE': 'RFC-1215',
}
SMI_TYPES_HOME = dict((t, 'SNMPv2-SMI') for t in (
    'Integer32', 'IpAddress', 'Counter32', 'Gauge32', 'Unsigned32', 'TimeTicks', 'Opaque',
    'Counter64'))
TC_HOME = dict((t, 'SNMPv2-TC') for t in ('DisplayString', 'PhysAddress', 'MacAddress',
                                          'TruthValue', 'TestAndIncr', 'AutonomousType',
                                          'RowStatus', 'TimeStamp', 'StorageType'))

# base type reached from a written built-in / application type name
BASE_OF = {
    'INTEGER': 'Integer32', 'Integer32': 'Integer32', 'OCTET STRING': 'OctetString',
    'OBJECT IDENTIFIER': 'ObjectIdentifier', 'BITS': 'Bits',
    'IpAddress': 'OctetString', 'Counter32': 'Integer32', 'Gauge32': 'Integer32',
    'Unsigned32': 'Integer32', 'TimeTicks': 'Integer32', 'Opaque': 'OctetString',
    'Counter64': 'Integer32', 'Counter': 'Integer32', 'Gauge': 'Integer32',
    'NetworkAddress': 'OctetString',
}
# pysnmp class expected for a written built-in type
PYSNMP_CLASS = {
    'INTEGER': 'Integer32', 'Integer32': 'Integer32', 'OCTET STRING': 'OctetString',
    'OBJECT IDENTIFIER': 'ObjectIdentifier', 'IpAddress': 'IpAddress', 'Counter32': 'Counter32',
    'Gauge32': 'Gauge32', 'Unsigned32': 'Unsigned32', 'TimeTicks': 'TimeTicks',
    'Opaque': 'Opaque', 'Counter64': 'Counter64', 'Counter': 'Counter32', 'Gauge': 'Gauge32',
    'NetworkAddress': 'IpAddress', 'BITS': 'Bits',
}


def pyname(name):
    return name.replace('-', '_')


class Lit(object):
    """An integer together with the way it is spelled in the text."""

    def __init__(self, value, spelling=None):
        self.value = value
        self.spelling = spelling if spelling is not None else str(value)

    def tok(self):
        return self.spelling

    def ast(self):
        # decimal tokens become ints, hex / binary strings stay as written
        return self.value if self.spelling[0] != "'" else self.spelling

    def __repr__(self):
        return 'Lit(%r,%r)' % (self.value, self.spelling)


def spell(rng, value, allow_strings=True):
    """Pick a spelling for a (non negative where needed) integer."""
    if allow_strings and value >= 0 and rng.random() < 0.3:
        if rng.random() < 0.6:
            h = '%X' % value
            if rng.random() < 0.5:
                h = h.lower()
            if rng.random() < 0.3:
                h = '0' * rng.randint(1, 3) + h
            return Lit(value, "'%s'%s" % (h, rng.choice('hH')))
        if value < (1 << 40):
            b = bin(value)[2:]
            if rng.random() < 0.3:
                b = '0' * rng.randint(1, 5) + b
            return Lit(value, "'%s'%s" % (b, rng.choice('bB')))
    return Lit(value)


class Oid(object):
    """`{ parent arcs... }` with its absolute value."""

    def __init__(self, parent, arcs, truth):
        self.parent = parent  # None | (module, name) | ('', 'iso')
        self.arcs = arcs      # list of ('n', int) | ('l', label, int)
        self.truth = tuple(truth)

    def tokens(self):
        out = []
        if self.parent is not None:
            out.append(self.parent[1])
        for a in self.arcs:
            if a[0] == 'n':
                out.append(str(a[1]))
            else:
                out += [a[1], '(', str(a[2]), ')']
        return out

    def ast(self):
        subs = []
        if self.parent is not None:
            subs.append(self.parent[1])
        for a in self.arcs:
            subs.append(a[1] if a[0] == 'n' else (a[1], a[2]))
        return ('objectIdentifier', subs)

    def dotted(self):
        return '.'.join(str(x) for x in self.truth)


class Syn(object):
    """A SYNTAX: written type name + optional refinement (or BITS / SEQUENCE OF / row)."""

    def __init__(self, written, ref=None, kind='type', tag=None, home=None, base=None):
        self.kind = kind        # type | bits | seqof | rowref
        self.written = written  # type name as written ('OCTET STRING', 'Foo', ...)
        self.ref = ref          # None | ('range', [..]) | ('size', [..]) | ('enum', [..])
        self.tag = tag          # None | ('APPLICATION', n)
        self.home = home        # module defining a named (non built-in) type
        self.base = base        # base type reached through the chain (model truth)
        self.bits = None        # for kind == 'bits': [(label, pos)]

    # ---- text
    def tokens(self):
        if self.kind == 'bits':
            t = ['BITS', '{']
            for i, (lab, pos) in enumerate(self.bits):
                if i:
                    t.append(',')
                t += [lab, '(', str(pos), ')']
            return t + ['}']
        if self.kind == 'seqof':
            return ['SEQUENCE', 'OF', self.written]
        t = []
        if self.tag:
            t += ['[', self.tag[0], str(self.tag[1]), ']', 'IMPLICIT']
        t += self.written.split(' ')
        t += ref_tokens(self.ref, getattr(self, 'enum_style', None))
        return t

    # ---- expected tree
    def ast(self):
        if self.kind == 'bits':
            return ('BITS', [(lab, pos) for lab, pos in self.bits])
        if self.kind == 'seqof':
            return ('conceptualTable', ('row', self.written))
        w = self.written
        sub = ref_ast(self.ref)
        if w in ('INTEGER', 'Integer32', 'OCTET STRING'):
            return ('SimpleSyntax', w) if sub is None else ('SimpleSyntax', w, sub)
        if w == 'OBJECT IDENTIFIER':
            return ('SimpleSyntax', w, sub)
        if w in ('IpAddress', 'TimeTicks', 'NetworkAddress'):
            return ('ApplicationSyntax', w, sub)
        if w in ('Counter32', 'Gauge32', 'Unsigned32', 'Counter64', 'Opaque', 'Counter', 'Gauge'):
            return ('ApplicationSyntax', w) if sub is None else ('ApplicationSyntax', w, sub)
        # named type
        if sub is None:
            return ('row', w)
        return ('SimpleSyntax', w, sub)


def ref_tokens(ref, enum_style=None):
    if not ref:
        return []
    kind, items = ref
    if kind == 'enum':
        seps, trailing = enum_style or ([',' ] * len(items), False)
        t = ['{']
        for i, (lab, val) in enumerate(items):
            if i and seps[i % len(seps)] == ',':
                t.append(',')
            t += [lab, '(', str(val), ')']
        if trailing:
            t.append(',')
        return t + ['}']
    t = ['(']
    if kind == 'size':
        t += ['SIZE', '(']
    for i, (lo, hi) in enumerate(items):
        if i:
            t.append('|')
        t.append(lo.tok())
        if hi is not None:
            t += ['..', hi.tok()]
    t.append(')')
    if kind == 'size':
        t.append(')')
    return t


def ref_ast(ref):
    if not ref:
        return None
    kind, items = ref
    if kind == 'enum':
        return ('enumSpec', [(lab, val) for lab, val in items])
    rs = [((lo.ast(),) if hi is None else (lo.ast(), hi.ast())) for lo, hi in items]
    return ('integerSubType' if kind == 'range' else 'octetStringSubType', rs)


class Decl(object):
    def __init__(self, kind, name, **kw):
        self.kind = kind
        self.name = name
        self.oid = None
        self.status = None
        self.descr = None
        self.ref = None
        self.__dict__.update(kw)

    def __repr__(self):
        return '<%s %s>' % (self.kind, self.name)


def q(text):
    return '"' + text + '"'


def name_list(names):
    t = []
    for i, n in enumerate(names):
        if i:
            t.append(',')
        t.append(n)
    return t


def tokens(d, v1=False):
    """Token list of one declaration."""
    k = d.kind
    o = lambda: ['::=', '{'] + d.oid.tokens() + ['}']
    refer = lambda: (['REFERENCE', q(d.ref)] if d.ref is not None else [])
    if k == 'value':
        return [d.name, 'OBJECT', 'IDENTIFIER'] + o()
    if k == 'objectidentity':
        return [d.name, 'OBJECT-IDENTITY', 'STATUS', d.status, 'DESCRIPTION', q(d.descr)] + refer() + o()
    if k == 'moduleidentity':
        t = [d.name, 'MODULE-IDENTITY', 'LAST-UPDATED', q(d.lastupdated), 'ORGANIZATION',
             q(d.organization), 'CONTACT-INFO', q(d.contact), 'DESCRIPTION', q(d.descr)]
        for rt, rd in d.revisions:
            t += ['REVISION', q(rt), 'DESCRIPTION', q(rd)]
        return t + o()
    if k == 'objecttype':
        t = [d.name, 'OBJECT-TYPE', 'SYNTAX'] + d.syntax.tokens()
        if d.units is not None:
            t += ['UNITS', q(d.units)]
        if d.access is not None:
            t += ['ACCESS' if d.access_kw == 'ACCESS' else 'MAX-ACCESS', d.access]
        t += ['STATUS', d.status]
        if d.descr is not None:
            t += ['DESCRIPTION', q(d.descr)]
        t += refer()
        if d.augments is not None:
            t += ['AUGMENTS', '{', d.augments[1], '}']
        if d.index is not None:
            t += ['INDEX', '{']
            for i, (implied, mod, nm) in enumerate(d.index):
                if i:
                    t.append(',')
                if implied:
                    t.append('IMPLIED')
                t += nm.split(' ')
            t.append('}')
        if d.defval is not None:
            t += ['DEFVAL', '{'] + d.defval.tokens() + ['}']
        return t + o()
    if k == 'notificationtype':
        t = [d.name, 'NOTIFICATION-TYPE']
        if d.objects:
            t += ['OBJECTS', '{'] + name_list([n for m, n in d.objects]) + ['}']
        return t + ['STATUS', d.status, 'DESCRIPTION', q(d.descr)] + refer() + o()
    if k == 'traptype':
        t = [d.name, 'TRAP-TYPE', 'ENTERPRISE']
        if getattr(d, 'braces', False):
            t += ['{'] + d.enterprise.tokens() + ['}']
        else:
            t += d.enterprise.tokens()
        if d.objects:
            t += ['VARIABLES', '{'] + name_list([n for m, n in d.objects]) + ['}']
        if d.descr is not None:
            t += ['DESCRIPTION', q(d.descr)]
        return t + refer() + ['::=', str(d.number)]
    if k == 'objectgroup':
        return ([d.name, 'OBJECT-GROUP', 'OBJECTS', '{'] + name_list([n for m, n in d.objects]) +
                ['}', 'STATUS', d.status, 'DESCRIPTION', q(d.descr)] + refer() + o())
    if k == 'notificationgroup':
        return ([d.name, 'NOTIFICATION-GROUP', 'NOTIFICATIONS', '{'] +
                name_list([n for m, n in d.objects]) +
                ['}', 'STATUS', d.status, 'DESCRIPTION', q(d.descr)] + refer() + o())
    if k == 'modulecompliance':
        t = [d.name, 'MODULE-COMPLIANCE', 'STATUS', d.status, 'DESCRIPTION', q(d.descr)] + refer()
        for cm in d.modules:
            t.append('MODULE')
            if cm['name']:
                t.append(cm['name'])
            if cm['mandatory']:
                t += ['MANDATORY-GROUPS', '{'] + name_list(cm['mandatory']) + ['}']
            for it in cm['items']:
                if it[0] == 'GROUP':
                    t += ['GROUP', it[1], 'DESCRIPTION', q(it[2])]
                else:
                    t += ['OBJECT', it[1]]
                    if it[2] is not None:
                        t += ['SYNTAX'] + it[2].tokens()
                    if it[3] is not None:
                        t += ['WRITE-SYNTAX'] + it[3].tokens()
                    if it[4] is not None:
                        t += ['MIN-ACCESS', it[4]]
                    t += ['DESCRIPTION', q(it[5])]
        return t + o()
    if k == 'agentcapabilities':
        t = [d.name, 'AGENT-CAPABILITIES', 'PRODUCT-RELEASE', q(d.release), 'STATUS', d.status,
             'DESCRIPTION', q(d.descr)] + refer()
        for sup in d.supports:
            t += ['SUPPORTS', sup['module'], 'INCLUDES', '{'] + name_list(sup['groups']) + ['}']
            for var in sup['variations']:
                t += ['VARIATION', var['name']]
                if var.get('syntax') is not None:
                    t += ['SYNTAX'] + var['syntax'].tokens()
                if var.get('write_syntax') is not None:
                    t += ['WRITE-SYNTAX'] + var['write_syntax'].tokens()
                if var.get('access') is not None:
                    t += ['ACCESS', var['access']]
                if var.get('creation') is not None:
                    t += ['CREATION-REQUIRES', '{'] + name_list(var['creation']) + ['}']
                if var.get('defval') is not None:
                    t += ['DEFVAL', '{', var['defval'], '}']
                t += ['DESCRIPTION', q(var['descr'])]
        return t + o()
    if k == 'type':
        return [d.name, '::='] + d.syntax.tokens()
    if k == 'tc':
        t = [d.name, '::=', 'TEXTUAL-CONVENTION']
        if d.display is not None:
            t += ['DISPLAY-HINT', q(d.display)]
        t += ['STATUS', d.status, 'DESCRIPTION', q(d.descr)] + refer()
        return t + ['SYNTAX'] + d.syntax.tokens()
    if k == 'sequence':
        t = [d.name, '::=', 'SEQUENCE', '{']
        for i, (col, syn) in enumerate(d.items):
            if i:
                t.append(',')
            t += [col] + syn.split(' ')
        if getattr(d, 'trailing_comma', False):
            t.append(',')
        return t + ['}']
    if k == 'macro':
        return [d.name, 'MACRO', d.body, 'END']
    if k == 'choice':
        return [d.name, '::=', 'CHOICE', '{' + d.body + '}']
    raise ValueError(k)


class DefVal(object):
    """DEFVAL value: kind in number|hex|bin|string|enum|bits|oid."""

    def __init__(self, kind, value, spelling=None, extra=None):
        self.kind = kind
        self.value = value       # int | str | [labels]
        self.spelling = spelling
        self.extra = extra       # oid truth / bit positions / enum number

    def tokens(self):
        if self.kind in ('number', 'hex', 'bin'):
            return [self.spelling]
        if self.kind == 'string':
            return [q(self.value)]
        if self.kind in ('enum', 'oid'):
            return [self.value]
        if self.kind == 'bits':
            return ['{'] + name_list(self.value) + ['}']
        raise ValueError(self.kind)

    def ast(self):
        if self.kind == 'number':
            return self.value
        if self.kind in ('hex', 'bin'):
            return self.spelling
        if self.kind == 'string':
            return q(self.value)
        if self.kind in ('enum', 'oid'):
            return self.value
        if self.kind == 'bits':
            return ('BitNames', list(self.value)) if self.value else None


def ast(d):
    """The tree the grammar actions build for one declaration (None for MACRO clauses)."""
    k = d.kind
    st = lambda: ('Status', d.status)
    de = lambda: ('DESCRIPTION', d.descr)
    rf = lambda: (('REFERENCE', d.ref) if d.ref is not None else None)
    if k == 'value':
        return ('valueDeclaration', d.name, d.oid.ast())
    if k == 'objectidentity':
        return ('objectIdentityClause', d.name, st(), de(), rf(), d.oid.ast())
    if k == 'moduleidentity':
        revs = None
        if d.revisions:
            revs = ('Revisions', [(rt, ('DESCRIPTION', rd)) for rt, rd in d.revisions])
        return ('moduleIdentityClause', d.name, ('LAST-UPDATED', d.lastupdated),
                ('ORGANIZATION', d.organization), ('CONTACT-INFO', d.contact), de(), revs,
                d.oid.ast())
    if k == 'objecttype':
        idx = None
        if d.index is not None:
            idx = ('INDEX', [(1 if imp else 0, nm) for imp, mod, nm in d.index])
        dv = None
        if d.defval is not None:
            v = d.defval.ast()
            if v is not None:
                dv = ('DEFVAL', v)
        return ('objectTypeClause', d.name, d.syntax.ast(),
                ('UNITS', d.units) if d.units is not None else None,
                ('MaxAccessPart', d.access) if d.access is not None else None,
                st(), de() if d.descr is not None else None, rf(),
                d.augments[1] if d.augments is not None else None, idx, dv, d.oid.ast())
    if k == 'notificationtype':
        objs = ('Objects', [n for m, n in d.objects]) if d.objects else []
        return ('notificationTypeClause', d.name, objs, st(), de(), rf(), d.oid.ast())
    if k == 'traptype':
        objs = ('VarTypes', [n for m, n in d.objects]) if d.objects else []
        return ('trapTypeClause', d.name, d.enterprise.ast(), objs,
                de() if d.descr is not None else None, rf(), d.number)
    if k == 'objectgroup':
        return ('objectGroupClause', d.name, ('Objects', [n for m, n in d.objects]), st(), de(),
                rf(), d.oid.ast())
    if k == 'notificationgroup':
        return ('notificationGroupClause', d.name, ('Notifications', [n for m, n in d.objects]),
                st(), de(), rf(), d.oid.ast())
    if k == 'modulecompliance':
        mods = []
        for cm in d.modules:
            objs = list(cm['mandatory']) + [it[1] for it in cm['items'] if it[0] == 'GROUP']
            mods.append((cm['name'], objs))
        return ('moduleComplianceClause', d.name, st(), de(), rf(), ('ComplianceModules', mods),
                d.oid.ast())
    if k == 'agentcapabilities':
        return ('agentCapabilitiesClause', d.name, ('PRODUCT-RELEASE', d.release), st(), de(),
                rf(), d.oid.ast())
    if k == 'type':
        return ('typeDeclaration', d.name, ('typeDeclarationRHS', d.syntax.ast()))
    if k == 'tc':
        return ('typeDeclaration', d.name, (
            'typeDeclarationRHS',
            ('DISPLAY-HINT', d.display) if d.display is not None else None,
            st(), de(), rf(), d.syntax.ast()))
    if k == 'sequence':
        return ('typeDeclaration', d.name,
                ('typeDeclarationRHS', ('SEQUENCE', [(c, s) for c, s in d.items])))
    if k == 'macro':
        return None
    if k == 'choice':
        return ('typeDeclaration', d.name, None)
    raise ValueError(k)


class Module(object):
    def __init__(self, name):
        self.name = name
        self.decls = []
        self.imports = []        # [(module, [symbols])] in written order
        self.module_oid = None   # optional `{ ... }` after the module name
        self.exports = None      # optional EXPORTS body text
        self.dialect = 'v2'

    def tokens(self):
        t = [self.name]
        if self.module_oid is not None:
            t += ['{'] + self.module_oid.tokens() + ['}']
        t += ['DEFINITIONS', '::=', 'BEGIN']
        if self.exports is not None:
            t += ['EXPORTS', self.exports + ';']
        if self.imports:
            t.append('IMPORTS')
            for gi, (mod, syms) in enumerate(self.imports):
                t += name_list(syms)
                if gi in getattr(self, 'import_trailing_comma', ()):
                    t.append(',')
                t += ['FROM', mod]
            t.append(';')
        for d in self.decls:
            t += tokens(d)
        t.append('END')
        return t

    def ast(self):
        imps = None
        if self.imports:
            imps = {}
            for mod, syms in self.imports:
                imps.setdefault(mod, [])
                imps[mod] = imps[mod] + list(syms)
        decls = [ast(d) for d in self.decls] or None
        return (self.name, self.module_oid.ast() if self.module_oid is not None else None,
                imps, decls)

    def by_name(self, name):
        for d in self.decls:
            if d.name == name:
                return d
        return None
