"""Runner shared by all checks: sharding, verdicts, evidence, known findings, replay.

A check module (checks/cNN_*.py) provides

    ID, LEVEL, RULE, ASSUMPTIONS
    plan(tier, seed) -> {'n': <cases>, 'budget_s': <per-worker time budget>,
                         'floors': {counter-or-cell: minimum}, 'min_evals': int}
    run_case(idx, rng, tier, res)      # executes the real code, judges it, fills `res`
    extra(tier, seed, emit)            # optional parent-side phase (subprocess sweeps...)

Verdicts are three-valued: VIOLATION (exit 1), held (exit 0), INCONCLUSIVE (exit 2; a
worker died / watchdog fired / a deciding monitor saw fewer events than its floor).
"""
import hashlib
import importlib
import json
import os
import random
import subprocess
import sys
import tempfile
import time
import traceback

from vlib import env

MAX_SAMPLES = 4
FLOOR_FRACTION = 0.05      # of the idle-machine expectation; a bypassed monitor (count 0) still shows
MAX_REPLAYS = 6


def stable_hash(obj):
    return hashlib.sha1(json.dumps(obj, sort_keys=True, default=repr).encode()).hexdigest()[:16]


class Result(object):
    """What one case observed."""

    def __init__(self, idx):
        self.idx = idx
        self.sig = None          # structural signature (distinctness)
        self.nontrivial = False
        self.cells = {}
        self.counts = {}
        self.violations = []
        self.sample = None
        self.evals = 1

    def cell(self, *names):
        for n in names:
            self.cells[n] = self.cells.get(n, 0) + 1

    def count(self, name, n=1):
        self.counts[name] = self.counts.get(name, 0) + n

    def violation(self, monitor, detail, replay=None, **features):
        v = {'monitor': monitor, 'detail': str(detail)[:2000], 'features': features,
             'idx': self.idx}
        if replay is not None:
            v['replay'] = replay
        self.violations.append(v)

    def to_json(self):
        return {'idx': self.idx, 'sig': self.sig, 'nt': bool(self.nontrivial),
                'cells': self.cells, 'counts': self.counts, 'viol': self.violations,
                'sample': self.sample, 'evals': self.evals}


def load_check(check_id):
    cdir = os.path.join(env.VERIF, 'checks')
    for fn in sorted(os.listdir(cdir)):
        if fn.lower().startswith(check_id.lower() + '_') and fn.endswith('.py'):
            return importlib.import_module('checks.' + fn[:-3])
    raise SystemExit('no check module for %s' % check_id)


def case_rng(seed, check_id, idx):
    return random.Random('%s:%s:%s' % (seed, check_id, idx))


# ---------------------------------------------------------------------------- worker

def worker_main(check_id, tier, seed, shard, nshards, out_path):
    env.pin()
    import warnings
    warnings.simplefilter('ignore')
    from vlib import cover
    mod = load_check(check_id)
    plan = mod.plan(tier, seed)
    n = plan['n']
    budget = plan.get('budget_s', 1e9)
    use_contracts = bool(getattr(mod, 'CONTRACTS', False))
    if use_contracts:
        from vlib import contracts
        use_contracts = contracts.install()
    rec = cover.Recorder()
    rec.start()
    t0 = time.time()
    done = 0
    with open(out_path, 'w') as f:
        for i in range(shard, n, nshards):
            if time.time() - t0 > budget:
                break
            res = Result(i)
            try:
                mod.run_case(i, case_rng(seed, check_id, i), tier, res)
            except Exception:
                res.violation('case_crashed', traceback.format_exc()[-1800:],
                              crashed=True)
            f.write(json.dumps(res.to_json(), default=repr) + '\n')
            done += 1
        rec.stop()
        if getattr(mod, 'CONTRACTS', False):
            cres = Result(-3)
            cres.evals = 0
            if use_contracts:
                from vlib import contracts
                cres.count('contract_evaluations', contracts.OBS['evaluated'])
                for name, detail in contracts.OBS['broken']:
                    cres.violation('contract_broken', '%s: %s' % (name, detail), contract=name[:40])
            else:
                cres.count('contracts_not_installed')
            f.write(json.dumps(cres.to_json(), default=repr) + '\n')
        f.write(json.dumps({'cover': rec.summary(), 'done': done,
                            'planned': len(range(shard, n, nshards))}) + '\n')
    return 0


# ---------------------------------------------------------------------------- findings

def load_findings():
    p = os.path.join(env.VERIF, 'known_findings.json')
    if not os.path.exists(p):
        return []
    with open(p) as f:
        return json.load(f).get('findings', [])


def match_finding(findings, prop, viol):
    flat = dict(viol.get('features', {}))
    flat['monitor'] = viol['monitor']
    for fd in findings:
        if fd.get('property') != prop or fd.get('status') != 'open':
            continue
        m = fd.get('match', {})
        if m and all((flat.get(k) in v) if isinstance(v, list) else (flat.get(k) == v)
                     for k, v in m.items()):
            return fd
    return None


# ---------------------------------------------------------------------------- parent

def parent_run(check_id, tier, seed):
    t0 = time.time()
    env.pin()
    mod = load_check(check_id)
    plan = mod.plan(tier, seed)
    nshards = max(1, min(plan.get('workers', os.cpu_count() or 4), plan['n'] or 1, 16))
    tmpd = tempfile.mkdtemp(prefix='verif-%s-' % check_id, dir=env.scratch_root())
    procs = []
    inconclusive = []
    records = []
    covers = []
    try:
        for k in range(nshards if plan['n'] else 0):
            out = os.path.join(tmpd, 'shard%d.jsonl' % k)
            cmd = [env.PYTHON, os.path.join(env.VERIF, 'run.py'), check_id, '--worker',
                   str(k), str(nshards), out, '--tier', tier, '--seed', str(seed)]
            e = env.child_env(plan.get('hashseed', '0'))
            e['VERIF_TMP'] = tmpd
            procs.append((k, out, subprocess.Popen(cmd, env=e, cwd=env.VERIF,
                                                   stdout=subprocess.PIPE,
                                                   stderr=subprocess.STDOUT)))
        watchdog = plan.get('watchdog_s', plan.get('budget_s', 600) * 4 + 300)
        deadline = time.time() + watchdog
        for k, out, p in procs:
            try:
                o, _ = p.communicate(timeout=max(1, deadline - time.time()))
            except subprocess.TimeoutExpired:
                p.kill()
                p.communicate()
                inconclusive.append('worker %d hit the wall-clock watchdog' % k)
                continue
            if p.returncode != 0:
                inconclusive.append('worker %d exited %s: %s' % (
                    k, p.returncode, (o or b'').decode('utf-8', 'replace')[-600:]))
            if os.path.exists(out):
                with open(out) as f:
                    for line in f:
                        try:
                            r = json.loads(line)
                        except ValueError:
                            continue
                        if 'cover' in r:
                            covers.append(r)
                        else:
                            records.append(r)

        if hasattr(mod, 'extra'):
            def emit(res):
                records.append(json.loads(json.dumps(res.to_json(), default=repr)))
            try:
                mod.extra(tier, seed, emit)
            except Exception:
                r = Result(-1)
                r.violation('extra_phase_crashed', traceback.format_exc()[-1800:], crashed=True)
                records.append(r.to_json())
    finally:
        import shutil
        shutil.rmtree(tmpd, ignore_errors=True)

    return finish(mod, check_id, tier, seed, plan, records, covers, inconclusive, t0)


def finish(mod, check_id, tier, seed, plan, records, covers, inconclusive, t0):
    evaluations = sum(r.get('evals', 1) for r in records)
    sigs = set()
    cells, counts = {}, {}
    samples = []
    viols = []
    for r in sorted(records, key=lambda r: r['idx']):
        if r.get('nt') and r.get('sig') is not None:
            sigs.add(r['sig'])
        for k, v in r.get('cells', {}).items():
            cells[k] = cells.get(k, 0) + v
        for k, v in r.get('counts', {}).items():
            counts[k] = counts.get(k, 0) + v
        if r.get('sample') is not None and len(samples) < MAX_SAMPLES:
            samples.append(r['sample'])
        viols.extend(r.get('viol', []))

    funcs = {}
    done = planned = 0
    for c in covers:
        done += c.get('done', 0)
        planned += c.get('planned', 0)
        for k, v in c['cover'].items():
            funcs[k] = funcs.get(k, 0) + v

    # floors -> inconclusive
    # plan floors are the counts expected on an idle 16-core machine; a run is inconclusive when a
    # deciding monitor saw less than FLOOR_FRACTION of that (slow or loaded machines must not turn a
    # time-budgeted run into a false "inconclusive", but a monitor that is bypassed still shows)
    floors = plan.get('floors', {})
    for k, nominal in floors.items():
        have = counts.get(k, cells.get(k, 0))
        minimum = max(1, int(nominal * FLOOR_FRACTION))
        if have < minimum:
            inconclusive.append('monitor counter %s=%d below its floor %d' % (k, have, minimum))
    min_evals = max(1, int(plan.get('min_evals', 1) * FLOOR_FRACTION))
    if evaluations < min_evals:
        inconclusive.append('only %d evaluations (< %d)' % (evaluations, min_evals))

    findings = load_findings()
    known_hits = {}
    new_viols = []
    for v in viols:
        fd = match_finding(findings, check_id, v)
        if fd is not None:
            known_hits.setdefault(fd['id'], [fd, 0])
            known_hits[fd['id']][1] += 1
        else:
            new_viols.append(v)

    replay_paths = []
    by_mon = {}
    for v in new_viols:
        by_mon.setdefault(v['monitor'], []).append(v)
    if new_viols:
        rdir = os.path.join(os.environ.get('VERIF_REPLAY_DIR') or os.path.join(env.VERIF, 'replays'), check_id)
        os.makedirs(rdir, exist_ok=True)
        for mon, vs in sorted(by_mon.items()):
            for v in vs[:2]:
                if len(replay_paths) >= MAX_REPLAYS:
                    break
                payload = {'property': check_id, 'tier': tier, 'seed': seed,
                           'idx': v['idx'], 'monitor': mon, 'features': v['features'],
                           'detail': v['detail'], 'inputs': v.get('replay')}
                p = os.path.join(rdir, '%s-%s.json' % (mon, stable_hash(payload)))
                with open(p, 'w') as f:
                    json.dump(payload, f, indent=1, default=repr)
                replay_paths.append((mon, p, v))

    wall = time.time() - t0
    observed = {
        'cells': dict(sorted(cells.items())),
        'monitor_counts': dict(sorted(counts.items())),
        'cases_done': done, 'cases_planned': planned,
        'pysmi_functions_entered': len(funcs),
        'pysmi_function_calls': sum(funcs.values()),
        'functions_sample': dict(sorted(funcs.items(), key=lambda kv: -kv[1])[:25]),
        'known_finding_hits': {k: v[1] for k, v in known_hits.items()},
        'violations_by_monitor': {k: len(v) for k, v in by_mon.items()},
        'inconclusive': inconclusive,
    }
    if hasattr(mod, 'observed_extra'):
        try:
            observed.update(mod.observed_extra(cells, counts, funcs))
        except Exception:
            pass
    coverage = {
        'evaluations': int(evaluations),
        'distinct_nontrivial': len(sigs),
        'rule': mod.RULE,
        'samples': samples or ['<no sample recorded>'],
        'observed': observed,
    }
    ev = {
        'property_id': check_id, 'tier': tier, 'seed': int(seed), 'level': mod.LEVEL,
        'coverage': coverage, 'assumptions': list(getattr(mod, 'ASSUMPTIONS', [])),
        'wall_s': round(wall, 2), 'violations': len(new_viols),
        'verdict': 'violated' if new_viols else ('inconclusive' if inconclusive else 'held'),
    }
    edir = os.environ.get('VERIF_EVIDENCE_DIR') or os.path.join(env.VERIF, 'evidence')
    os.makedirs(edir, exist_ok=True)
    with open(os.path.join(edir, '%s.json' % check_id), 'w') as f:
        json.dump(ev, f, indent=1, default=repr)
        f.write('\n')

    if os.environ.get('VERIF_COVER_DUMP'):
        os.makedirs(os.environ['VERIF_COVER_DUMP'], exist_ok=True)
        with open(os.path.join(os.environ['VERIF_COVER_DUMP'], '%s.json' % check_id), 'w') as f:
            json.dump(funcs, f)

    print('%s tier=%s seed=%s evaluations=%d distinct_nontrivial=%d functions=%d wall=%.1fs' % (
        check_id, tier, seed, evaluations, len(sigs), len(funcs), wall))
    for k in sorted(counts):
        print('  monitor %-42s %d' % (k, counts[k]))
    for fid, (fd, nhit) in sorted(known_hits.items()):
        print('KNOWN-FINDING: property=%s %s [%s, %d hits]' % (check_id, fd['what'], fid, nhit))
    if new_viols:
        for mon, p, v in replay_paths:
            print('VIOLATION property=%s replay=%s' % (check_id, p))
            print('  monitor=%s features=%s' % (mon, json.dumps(v['features'], sort_keys=True, default=repr)))
            print('  ' + v['detail'].replace('\n', '\n  ')[:1200])
        print('%d violation(s) in %d monitor(s): %s' % (
            len(new_viols), len(by_mon), ', '.join('%s=%d' % (k, len(v)) for k, v in sorted(by_mon.items()))))
        return 1
    if inconclusive:
        for why in inconclusive:
            print('INCONCLUSIVE property=%s reason=%s' % (check_id, why))
        return 2
    print('HELD property=%s on what was observed' % check_id)
    return 0


def replay(check_id, path):
    env.pin()
    mod = load_check(check_id)
    with open(path) as f:
        payload = json.load(f)
    idx, seed, tier = payload['idx'], payload['seed'], payload['tier']
    res = Result(idx)
    if idx < 0 and hasattr(mod, 'extra'):
        out = []
        mod.extra(tier, seed, out.append)
        viols = [v for r in out for v in r.violations]
    else:
        try:
            mod.run_case(idx, case_rng(seed, check_id, idx), tier, res)
        except Exception:
            res.violation('case_crashed', traceback.format_exc()[-1800:], crashed=True)
        viols = res.violations
    findings = load_findings()
    bad = 0
    for v in viols:
        fd = match_finding(findings, check_id, v)
        if fd:
            print('KNOWN-FINDING: property=%s %s' % (check_id, fd['what']))
        else:
            bad += 1
            print('VIOLATION property=%s replay=%s' % (check_id, path))
            print('  monitor=%s %s' % (v['monitor'], v['detail'][:1500]))
    if not bad:
        print('replayed case %s of %s: no violation on this tree' % (idx, check_id))
    return 1 if bad else 0


def main(argv):
    import argparse
    ap = argparse.ArgumentParser()
    ap.add_argument('check')
    ap.add_argument('--tier', default=os.environ.get('VERIF_TIER', 'quick'),
                    choices=['quick', 'thorough'])
    ap.add_argument('--seed', type=int, default=int(os.environ.get('VERIF_SEED', '0') or 0))
    ap.add_argument('--replay')
    ap.add_argument('--worker', nargs=3)
    a = ap.parse_args(argv)
    cid = a.check.upper()
    if a.worker:
        return worker_main(cid, a.tier, a.seed, int(a.worker[0]), int(a.worker[1]), a.worker[2])
    if a.replay:
        return replay(cid, a.replay)
    return parent_run(cid, a.tier, a.seed)
