"""Orchestration scenarios for compile(): generator, executor, reference model, trace checkers.

A scenario is plain JSON: an import graph over tiny user modules, what every source /
searcher / borrower / the writer answers per module, scripted parser / code generator
faults, and the compile options.  `execute()` runs the *real* MibCompiler over doubles
(vlib.doubles) and returns the result plus the boundary trace; `model()` predicts the
status map from the documented orchestration; the `check_*` functions are the offline
trace checkers used by C07, C08, C09, C10 and C19.
"""
import itertools

from vlib import doubles

BASE = ('SNMPv2-SMI', 'SNMPv2-TC', 'SNMPv2-CONF')
STATUSES = ('compiled', 'untouched', 'failed', 'unprocessed', 'missing', 'borrowed')
TEXT_FAULTS = ('empty', 'comments', 'truncated', 'lexerr', 'synerr', 'unresolved', 'dupsym', 'untyped',
               'macro_open', 'choice_open')
# texts that parse and pass the symbol table but cannot be code-generated (semantic defects)
CODEGEN_FAULTS = ('ghost', 'ghostdefval', 'oidloop', 'oidself')
# faults that make the *whole file* unusable before any module is registered
OPTION_NAMES = ('noDeps', 'rebuild', 'dryRun', 'genTexts', 'ignoreErrors', 'writeMibs')

# SMIv1 base modules and a symbol pysmi rewrites to its SMIv2 home (so nothing stays imported from them)
V1_BASE = {'RFC1155-SMI': 'enterprises, Counter', 'RFC-1212': 'OBJECT-TYPE', 'RFC-1215': 'TRAP-TYPE',
           'RFC1065-SMI': 'mgmt'}

MODNAMES = ['AA-MIB', 'BB-MIB', 'CC-MIB', 'DD-MIB', 'EE-MIB', 'FF-MIB', 'GG-MIB', 'HH-MIB']


def node_name(mod):
    return mod.split('-')[0].lower() + 'Node'


def module_text(mod, imports, src, variant='ok', tag_arc=1, extra_modules=()):
    """text of one file: module `mod` (+ extra healthy modules in the same file)"""
    arc = MODNAMES.index(mod) if mod in MODNAMES else 77
    head = '-- src=%s mod=%s\n' % (src, mod)
    imp = ''
    v1 = [m for m in imports if m in V1_BASE]
    imports = [m for m in imports if m not in V1_BASE]
    items = ['dep%d FROM %s' % (i, m) for i, m in enumerate(imports)] + \
        ['%s FROM %s' % (V1_BASE[m], m) for m in v1]
    if variant in ('ghost', 'ghostdefval'):
        # a symbol its (existing or missing) exporter lacks
        items.insert(0, 'ghostSym FROM %s' % (imports[0] if imports else 'SNMPv2-SMI'))
    if items:
        imp = 'IMPORTS ' + ' '.join(items) + ';\n'
    node = '%s OBJECT IDENTIFIER ::= { 1 3 6 1 4 1 99999 %d %d }\n' % (node_name(mod), tag_arc, arc)
    body = '%s DEFINITIONS ::= BEGIN\n%s%s' % (mod, imp, node)
    if variant == 'ok':
        text = head + body + 'END\n'
    elif variant == 'empty':
        return ''
    elif variant == 'comments':
        return head + '-- nothing but comments\n'
    elif variant == 'truncated':
        return head + body
    elif variant == 'lexerr':
        text = head + body + '!bang OBJECT IDENTIFIER ::= { 1 }\nEND\n'
    elif variant == 'synerr':
        text = head + body + 'oops OBJECT IDENTIFIER ::= { }\nEND\n'
    elif variant == 'unresolved':
        text = head + body + 'lost OBJECT IDENTIFIER ::= { noSuchParent 1 }\nEND\n'
    elif variant == 'untyped':
        # an object whose SYNTAX names a type defined nowhere: the symbol stays postponed for good
        text = head + body + ('orphan OBJECT-TYPE SYNTAX NoSuchType MAX-ACCESS read-only STATUS current '
                              'DESCRIPTION "x" ::= { %s 8 }\nEND\n' % node_name(mod))
    elif variant == 'macro_open':
        # the text ends inside the body of a standard MACRO: the lexer is in its exclusive macro state
        text = head + body + 'OBJECT-TYPE MACRO ::= BEGIN\n TYPE NOTATION ::= "SYNTAX" type\n VALUE NOTATION ::= value\n'
        return text
    elif variant == 'choice_open':
        text = head + body + 'OpenChoice ::= CHOICE { first INTEGER,\n second OCTET STRING\n'
        return text
    elif variant == 'dupsym':
        text = head + body + node + 'END\n'
    elif variant == 'ghost':
        # resolvable only by the code generator: parent imported from a module lacking it
        text = head + body + 'spooky OBJECT IDENTIFIER ::= { ghostSym 1 }\nEND\n'
    elif variant == 'ghostdefval':
        # an OID valued DEFVAL naming a symbol its (existing or missing) exporter lacks
        text = head + body + ('haunted OBJECT-TYPE SYNTAX OBJECT IDENTIFIER MAX-ACCESS read-only STATUS current '
                              'DESCRIPTION "x" DEFVAL { ghostSym } ::= { %s 9 }\nEND\n' % node_name(mod))
    elif variant == 'oidloop':
        # two nodes defined in terms of each other
        text = head + body + 'loopA OBJECT IDENTIFIER ::= { loopB 1 }\nloopB OBJECT IDENTIFIER ::= { loopA 1 }\nEND\n'
    elif variant == 'oidself':
        text = head + body + 'selfish OBJECT IDENTIFIER ::= { selfish 1 }\nEND\n'
    else:
        raise ValueError(variant)
    for em in extra_modules:
        text += module_text(em[0], em[1], src, em[2] if len(em) > 2 else 'ok', tag_arc)
    return text


def base_text(name):
    return '%s DEFINITIONS ::= BEGIN\nEND\n' % name


# ------------------------------------------------------------------------------ scenario

def new_scenario(modules, graph, requested, nsources=1):
    return {
        'modules': list(modules),
        'graph': dict((m, list(graph.get(m, []))) for m in modules),
        'files': {},            # file name -> [modules] for alias / multi-module files
        'requested': list(requested),
        'sources': [dict((m, 'ok') for m in modules) for _ in range(nsources)],
        'parser_script': {},    # module -> error kind (matched through the text tag)
        'codegen_script': {},
        'searchers': [],        # [{'table': {mod: answer}, 'stub': bool}]
        'borrowers': [],        # [{'genTexts': bool, 'kind': 'any'|'py', 'table': {...}}]
        'writer': {},
        'options': {},
    }


def file_of(scn, mod):
    for f, mods in scn['files'].items():
        if mod in mods:
            return f
    return mod


def file_modules(scn, fname):
    return scn['files'].get(fname, [fname])


def source_tables(scn):
    """per source: file name -> text | ('error', kind)"""
    tables = []
    for si, src in enumerate(scn['sources']):
        t = {}
        for key, outcome in src.items():
            if outcome == 'absent':
                continue
            fname = file_of(scn, key) if key in scn['modules'] else key
            mods = file_modules(scn, fname)
            lead = mods[0]
            if isinstance(outcome, (list, tuple)) and outcome[0] == 'error':
                t[fname] = ('error', outcome[1])
                continue
            extra = [(m, scn['graph'].get(m, []), scn.get('extra_variant', {}).get(m, 'ok')) for m in mods[1:]]
            t[fname] = module_text(lead, scn['graph'].get(lead, []), 's%d' % si, outcome,
                                   tag_arc=si + 1, extra_modules=extra)
        if si == 0:
            # a module that also has a file of its own although another file holds it as well
            for m, variant in scn.get('own_files', {}).items():
                t[m] = module_text(m, scn['graph'].get(m, []), 's0own', variant, tag_arc=9)
        tables.append(t)
    return tables


def execute(scn, codegen='json', extra_parser=None, around=None):
    """Run the real compiler; returns dict(result|exception, trace, components)."""
    from pysmi.compiler import MibCompiler
    from pysmi.searcher.stub import StubSearcher
    from pysmi.borrower import AnyFileBorrower, PyFileBorrower
    from vlib import pipeline

    tr = doubles.Trace()
    parser = doubles.ParserW(tr, extra_parser or pipeline.make_parser('smiV1Relaxed'),
                             dict(('mod=%s\n' % m, k) for m, k in scn['parser_script'].items()))
    cg = doubles.CodegenW(tr, pipeline.make_codegen(codegen), scn['codegen_script'])
    wr = doubles.WriterD(tr, scn['writer'])
    comp = MibCompiler(parser, cg, wr)
    srcs = [doubles.SourceD(tr, 's%d' % i, t, alias=scn.get('source_alias'))
            for i, t in enumerate(source_tables(scn))]
    base_tab = dict((b, base_text(b)) for b in BASE)
    for b in scn.get('base_extra', []):
        base_tab[b] = base_text(b)
    srcs.append(doubles.SourceD(tr, 'base', base_tab))
    comp.addSources(*srcs)
    searchers = [doubles.SearcherD(tr, 'q%d' % i, s['table'], stub=s.get('stub', False))
                 for i, s in enumerate(scn['searchers'])]
    searchers.append(StubSearcher(*(BASE + tuple(V1_BASE))))
    comp.addSearchers(*searchers)
    brs = []
    for i, b in enumerate(scn['borrowers']):
        rd = doubles.BorrowReaderD(tr, 'b%d' % i, dict(
            (k, (('error', 'reader') if v == 'error' else v)) for k, v in b['table'].items()),
            alias=b.get('alias'))
        cls = PyFileBorrower if b.get('kind') == 'py' else AnyFileBorrower
        brs.append(cls(rd, genTexts=b['genTexts']))
    comp.addBorrowers(*brs)
    out = {'trace': tr, 'parser': parser, 'codegen': cg, 'writer': wr, 'sources': srcs}
    def call():
        return comp.compile(*scn['requested'], **scn['options'])
    try:
        out['result'] = around(call) if around else call()
    except BaseException as exc:  # noqa - judged by I1
        out['exception'] = exc
    return out


# ------------------------------------------------------------------------------ model

def text_ok(outcome):
    return outcome == 'ok' or outcome in CODEGEN_FAULTS


def model(scn):
    """Predicted status per result key following the documented orchestration.

    Returns (statuses, info) where statuses maps name -> status or a tuple of acceptable
    statuses, and info carries the sets the trace checkers need."""
    opts = scn['options']
    requested = scn['requested']
    parsed = {}     # module -> (source index, file name)
    failed = {}     # name -> stage
    missing = set()
    served_by = {}
    queue = list(requested)
    done = set()
    while queue:
        n = queue.pop(0)
        if n in done or n in parsed:
            continue
        done.add(n)
        if n in BASE or (n in V1_BASE and n in scn.get('base_extra', [])):
            parsed[n] = ('base', n)
            continue
        if n in V1_BASE:
            missing.add(n)
            continue
        delivered = None
        errs = []
        for si, src in enumerate(scn['sources']):
            mods = file_modules(scn, n)
            key = mods[0] if mods[0] in src else n
            o = src.get(key, 'absent')
            if o == 'absent':
                continue
            if isinstance(o, (list, tuple)) and o[0] == 'error':
                errs.append(('reader', si))
                continue
            if o == 'comments' and any(m in scn['parser_script'] for m in mods):
                errs.append(('parser', si))
                continue
            if o in ('empty', 'comments'):
                continue        # a file without any module is no source for this MIB
            if not text_ok(o):
                errs.append(('text:' + o, si))
                continue
            if any(m in scn['parser_script'] for m in mods):
                errs.append(('parser', si))
                continue
            delivered = (si, mods)
            break
        if delivered is not None:
            si, mods = delivered
            if not mods:
                failed[n] = 'nomodule'
                continue
            for m in mods:
                parsed[m] = (si, n)
                served_by[m] = si
                queue.extend(scn['graph'].get(m, []))
                queue.extend(BASE)
            if errs:
                failed.pop(n, None)
        elif errs:
            failed[n] = errs[-1][0]
        else:
            missing.add(n)

    req_canon = set()
    for r in requested:
        for m in file_modules(scn, r):
            if m in parsed and parsed[m][1] == r:
                req_canon.add(m)

    def searchers_say_fresh(m):
        for s in scn['searchers']:
            a = s['table'].get(m, 'absent')
            if a == 'fresh' and (not opts.get('rebuild') or s.get('stub')):
                return True
        return m in BASE or m in V1_BASE

    status = {}
    to_gen = []
    for m in parsed:
        if searchers_say_fresh(m):
            status[m] = 'untouched'
        elif opts.get('noDeps') and m not in req_canon:
            status[m] = 'untouched'
        else:
            to_gen.append(m)
    built = {}
    for m in to_gen:
        o = 'ok'
        if m not in BASE:
            si = parsed[m][0]
            src = scn['sources'][si]
            o = src.get(m, src.get(parsed[m][1], 'ok'))
        if m in scn['codegen_script']:
            failed[m] = 'codegen'
        elif o in CODEGEN_FAULTS:
            failed[m] = 'codegen-semantic'
        else:
            built[m] = 'compiled'
    for n in missing:
        failed[n] = 'missing'

    # borrowing
    borrowed = {}
    for n in list(failed):
        if opts.get('noDeps') and n not in req_canon and n not in requested:
            continue
        for b in scn['borrowers']:
            if bool(opts.get('genTexts')) != bool(b['genTexts']):
                continue
            v = b['table'].get(n)
            if v is None or v == 'error':
                continue
            borrowed[n] = v
            break
    for n, text in borrowed.items():
        stage = failed.pop(n)
        missing.discard(n)
        if searchers_say_fresh(n):
            status[n] = 'untouched'
        else:
            built[n] = 'borrowed'
    for n, stage in failed.items():
        status[n] = 'missing' if stage == 'missing' else (
            ('missing', 'failed') if stage == 'nomodule' else 'failed')
    if failed and not opts.get('ignoreErrors'):
        for m in built:
            status[m] = 'unprocessed'
        written = {}
    else:
        written = {}
        for m, kind in built.items():
            if opts.get('writeMibs', True) and m in scn['writer']:
                status[m] = 'failed'
            else:
                status[m] = kind
                if opts.get('writeMibs', True):
                    written[m] = borrowed.get(m)
    info = {'parsed': parsed, 'failed': failed, 'built': built, 'borrowed': borrowed,
            'written': written, 'req_canon': req_canon, 'served_by': served_by}
    return status, info


# ------------------------------------------------------------------------------ helpers

def injected_errors(run):
    errs = []
    for s in run['sources']:
        errs += list(s.injected.values())
    errs += [e for _t, e in run['parser'].injected]
    errs += list(run['codegen'].injected.values())
    errs += list(run['writer'].injected.values())
    return errs


def describe(scn):
    d = dict(scn)
    return d


def graph_class(scn):
    g = scn['graph']
    if any(m in g.get(m, []) for m in g):
        return 'selfloop'
    # cycle detection
    color = {}

    def dfs(u):
        color[u] = 1
        for v in g.get(u, []):
            if v not in g:
                continue
            if color.get(v) == 1:
                return True
            if color.get(v) is None and dfs(v):
                return True
        color[u] = 2
        return False
    for m in g:
        if color.get(m) is None and dfs(m):
            return 'cyclic'
    return 'dag'


def closure(scn, roots):
    seen = []
    q = list(roots)
    while q:
        n = q.pop(0)
        if n in seen:
            continue
        seen.append(n)
        for m in file_modules(scn, n):
            if m not in seen and m != n:
                seen.append(m)
            q.extend(scn['graph'].get(m, []))
    return seen


GRAPHS = {
    'single': (['AA-MIB'], {}),
    'chain2': (['AA-MIB', 'BB-MIB'], {'AA-MIB': ['BB-MIB']}),
    'chain3': (['AA-MIB', 'BB-MIB', 'CC-MIB'], {'AA-MIB': ['BB-MIB'], 'BB-MIB': ['CC-MIB']}),
    'star': (['AA-MIB', 'BB-MIB', 'CC-MIB', 'DD-MIB'], {'AA-MIB': ['BB-MIB', 'CC-MIB', 'DD-MIB']}),
    'diamond': (['AA-MIB', 'BB-MIB', 'CC-MIB', 'DD-MIB'],
                {'AA-MIB': ['BB-MIB', 'CC-MIB'], 'BB-MIB': ['DD-MIB'], 'CC-MIB': ['DD-MIB']}),
    'cycle2': (['AA-MIB', 'BB-MIB'], {'AA-MIB': ['BB-MIB'], 'BB-MIB': ['AA-MIB']}),
    'cycle3': (['AA-MIB', 'BB-MIB', 'CC-MIB'],
               {'AA-MIB': ['BB-MIB'], 'BB-MIB': ['CC-MIB'], 'CC-MIB': ['AA-MIB']}),
    'selfloop': (['AA-MIB', 'BB-MIB'], {'AA-MIB': ['AA-MIB', 'BB-MIB']}),
    'two_roots': (['AA-MIB', 'BB-MIB', 'CC-MIB'], {'AA-MIB': ['CC-MIB'], 'BB-MIB': ['CC-MIB']}),
}


def random_graph(rng, nmax=5, p_edge=0.3, allow_cycles=True):
    n = rng.randint(1, nmax)
    mods = MODNAMES[:n]
    g = {}
    for i, a in enumerate(mods):
        g[a] = []
        for j, b in enumerate(mods):
            if i == j:
                if allow_cycles and rng.random() < 0.08:
                    g[a].append(b)
                continue
            if (j > i or allow_cycles) and rng.random() < (p_edge if j > i else p_edge * 0.3):
                g[a].append(b)
    return mods, g


def all_option_sets(names=OPTION_NAMES):
    for bits in itertools.product([False, True], repeat=len(names)):
        o = dict(zip(names, bits))
        yield o


# ------------------------------------------------------------------------------ trace checkers

def check_accounting(scn, run, V, compare_model=True):
    """C07 invariants I1..I7 (+ status model).  V(monitor, detail, **features)."""
    tr = run['trace']
    opts = scn['options']
    if 'exception' in run:
        exc = run['exception']
        V('I1_exception_escaped', 'compile() raised %s: %s' % (type(exc).__name__, str(exc)[:300]),
          exc=type(exc).__name__)
        return None
    result = run['result']
    exp, info = model(scn)
    # I2 every requested / imported module accounted for, with a documented status
    for k, v in result.items():
        if str(v) not in STATUSES:
            V('I2_unknown_status', '%s -> %r' % (k, v))
    # "successfully parsed" = parsed and registered in the symbol table (scenario knowledge)
    parsed_ok = set(info['parsed'])
    want = set()
    for r in scn['requested']:
        mods = file_modules(scn, r)
        if r in result or any(m in result for m in mods):
            continue
        want.add(r)
    for m in parsed_ok:
        for dep in scn['graph'].get(m, []):
            if dep not in result:
                want.add(dep)
    for w in sorted(want):
        stage = info['failed'].get(w, '?')
        V('I2_module_unaccounted', '%s is requested or imported by a parsed module but absent '
          'from the result %r' % (w, dict((k, str(v)) for k, v in result.items())),
          stage=stage)
    # I3 at most one hand-over per module
    puts = {}
    for e in tr.select('writer', 'putData', 'call'):
        puts[e['name']] = puts.get(e['name'], 0) + 1
    for k, n in puts.items():
        if n > 1:
            V('I3_written_twice', '%s handed to the writer %d times' % (k, n))
    ok_puts = dict((e['name'], e) for e in tr.select('writer', 'putData', 'ret'))
    # I4 compiled/borrowed <=> successful hand-over
    if opts.get('writeMibs', True):
        for k, v in result.items():
            if v in ('compiled', 'borrowed') and k not in ok_puts:
                V('I4_status_without_write', '%s reported %s but was never handed to the writer '
                  'successfully' % (k, v), status=str(v))
        for k in ok_puts:
            if result.get(k) not in ('compiled', 'borrowed'):
                V('I4_write_without_status', '%s was written successfully but is reported %r' % (
                    k, str(result.get(k))), status=str(result.get(k)))
    elif puts:
        V('I4_write_although_disabled', 'writeMibs=False but putData called for %s' % sorted(puts))
    # I5 payload is what the generator / borrower produced
    gen = dict((e['name'], e['text']) for e in tr.select('codegen', 'genCode', 'ret'))
    bor = {}
    for e in tr.select('borrower', 'getData', 'ret'):
        bor.setdefault(e['name'], e['text'])
    for e in tr.select('writer', 'putData', 'call'):
        k = e['name']
        st = result.get(k)
        want_text = bor.get(k) if (st == 'borrowed' or k not in gen) else gen.get(k)
        if e['text'] != want_text:
            V('I5_payload_differs', '%s: payload handed to the writer is not the text produced '
              'for it (status %s)' % (k, st), status=str(st))
    # I6 failed entries carry the causing error
    inj = injected_errors(run)
    for k, v in result.items():
        if v == 'failed':
            err = getattr(v, 'error', None)
            from pysmi import error as perr
            if err is None or not isinstance(err, perr.PySmiError):
                V('I6_failed_without_error', '%s failed but .error is %r' % (k, err))
                continue
            text_faulted = any(isinstance(src.get(kk), str) and src.get(kk) not in ('ok', 'absent')
                               for src in scn['sources'] for kk in [k] + list(file_modules(scn, k)))
            if text_faulted:
                continue        # the module's own text defect is a legitimate cause too
            mine = [e for e in inj if (' %s ' % k) in (' ' + e.msg.replace(',', ' ') + ' ')
                    or e.msg.endswith(k) or ('for %s' % k) in e.msg]
            if mine and not any(err is e for e in mine):
                V('I6_wrong_error', '%s failed with %r, injected for it: %r' % (k, err, mine))
    # I7 healthy modules are not dropped or failed because of another module
    for m, st in exp.items():
        acceptable = st if isinstance(st, tuple) else (st,)
        got = result.get(m)
        if got is None:
            if m not in want:
                V('I7_module_dropped', '%s expected %s but is absent from the result' % (m, st),
                  expected=str(st))
        elif compare_model and str(got) not in acceptable:
            V('model_status', '%s is %s, the documented orchestration gives %s' % (m, got, st),
              got=str(got), expected=str(st))
    if compare_model:
        for k in result:
            if k not in exp:
                V('model_extra_key', 'unexpected result key %s=%s' % (k, result[k]))
    return exp, info


def good_copy(scn, si, fname):
    """does source si hold a well-formed copy of file fname?"""
    src = scn['sources'][si]
    key = file_modules(scn, fname)[0]
    return src.get(key if key in src else fname, 'absent') in ('ok',) + CODEGEN_FAULTS


def served_text(scn, si, fname):
    t = source_tables(scn)[si].get(fname)
    return t


def check_fetching(scn, run, V):
    """C08: closure, fetch order, first-holder-wins, at most one fetch+parse per module."""
    tr = run['trace']
    if 'exception' in run:
        V('exception_escaped', repr(run['exception'])[:300])
        return
    result = run['result']
    tables = source_tables(scn)
    nsrc = len(tables)
    order = ['s%d' % i for i in range(nsrc)] + ['base']
    # closure of the requested names over what the sources can serve
    want = set()
    q = list(scn['requested'])
    seen = set()
    while q:
        n = q.pop(0)
        if n in seen:
            continue
        seen.add(n)
        holders = [i for i in range(nsrc) if n in tables[i] and good_copy(scn, i, n)]
        if n in BASE or n in V1_BASE:
            want.add(n)
            continue
        if not holders:
            want.add(n)     # must be reported (missing)
            continue
        for m in file_modules(scn, n):
            want.add(m)
            q.extend(scn['graph'].get(m, []))
            q.extend(BASE)
    for w in sorted(want):
        if w not in result:
            V('closure_incomplete', '%s is in the import closure of %s but not in the result %s' % (
                w, scn['requested'], sorted(result)), cls=graph_class(scn))
    # per-name fetch sequences
    calls = {}
    for e in tr.select('source', 'getData', 'call'):
        calls.setdefault(e['name'], []).append(e['comp'].split(':')[1])
    rets = {}
    for e in tr.select('source', 'getData', 'ret'):
        rets.setdefault(e['name'], []).append((e['comp'].split(':')[1], e['text']))
    total = 0
    for name, seq in calls.items():
        total += len(seq)
        if len(set(seq)) != len(seq):
            V('fetched_twice', '%s: source asked more than once: %s' % (name, seq),
              cls=graph_class(scn))
        idx = [order.index(s) for s in seq]
        if idx != sorted(idx):
            V('source_order', '%s: sources consulted out of insertion order: %s' % (name, seq))
        exp_seq = []
        for s in order:
            exp_seq.append(s)
            holds = (name in BASE or name in scn.get('base_extra', [])) if s == 'base' \
                else (name in tables[int(s[1:])] and good_copy(scn, int(s[1:]), name))
            if holds:
                break
        if seq != exp_seq:
            V('fetch_sequence', '%s: consulted %s, expected %s (stop at the first holder)' % (
                name, seq, exp_seq), cls=graph_class(scn))
        ngood = len([1 for src, _t in rets.get(name, []) if src == 'base' or good_copy(scn, int(src[1:]), name)])
        if ngood > 1:
            V('delivered_twice', '%s delivered %d times' % (name, ngood))
    names = set(calls)
    if total > (nsrc + 1) * max(1, len(names)):
        V('progress_bound', '%d getData calls for %d names and %d sources' % (total, len(names), nsrc + 1))
    # parser input = text of the first holder; parsed at most once per fetched file
    parses = tr.select('parser', 'parse', 'call')
    fetched = sum(len(v) for v in rets.values())
    if len(parses) > fetched:
        V('parsed_more_than_fetched', '%d parser calls for %d successful fetches' % (len(parses), fetched))
    parsed_texts = [e['text'] for e in parses]
    for name, lst in rets.items():
        lst = [x for x in lst if x[0] == 'base' or good_copy(scn, int(x[0][1:]), name)] or lst[-1:]
        src, text = lst[0]
        if parsed_texts.count(text) != 1:
            V('parse_count', 'text of %s from %s handed to the parser %d times' % (
                name, src, parsed_texts.count(text)))
        if name in BASE or name in V1_BASE:
            continue
        firsts = [i for i in range(nsrc) if name in tables[i] and good_copy(scn, i, name)]
        if not firsts:
            continue
        first = firsts[0]
        if text != tables[first][name]:
            V('wrong_source_text', '%s: parser got the copy of %s, first holder is s%d' % (name, src, first))
    # what was finally written stems from the first holder (unique tag arc per source)
    for e in tr.select('writer', 'putData', 'call'):
        m = e['name']
        if m in BASE or m not in scn['modules']:
            continue
        fname = file_of(scn, m)
        holders = [i for i in range(nsrc) if fname in tables[i] and good_copy(scn, i, fname)]
        if not holders:
            continue
        tag = '1.3.6.1.4.1.99999.%d.' % (holders[0] + 1)
        if tag not in e['text']:
            V('compiled_text_origin', '%s: written text does not carry the tag of its first source s%d' % (
                m, holders[0]))


def check_nowrite(scn, run, V):
    """C09: nothing written when a failure remains (unless ignoreErrors)."""
    tr = run['trace']
    if 'exception' in run:
        V('exception_escaped', repr(run['exception'])[:300])
        return
    result = run['result']
    opts = scn['options']
    bad = [k for k, v in result.items() if v in ('failed', 'missing')]
    built = [e['name'] for e in tr.select('codegen', 'genCode', 'ret')]
    puts = [e['name'] for e in tr.select('writer', 'putData', 'call')]
    exp, info = model(scn)
    exp_bad = [k for k, v in exp.items() if v in ('failed', 'missing') or isinstance(v, tuple)]
    if not opts.get('ignoreErrors'):
        if exp_bad or bad:
            if puts:
                V('written_despite_failure', 'failures %s remain but %s handed to the writer' % (
                    sorted(set(bad + exp_bad)), puts), nbad=len(bad))
            for e in tr.select('borrower', 'getData', 'ret'):
                if result.get(e['name']) == 'borrowed':
                    V('borrowed_not_unprocessed', '%s was borrowed, failures %s remain and nothing is written, yet it is '
                      'reported borrowed' % (e['name'], sorted(set(bad + exp_bad))), status='borrowed')
            for m in built:
                if result.get(m) != 'unprocessed':
                    V('built_not_unprocessed', '%s was built, failures %s remain, status is %s' % (
                        m, sorted(set(bad + exp_bad)), result.get(m)), status=str(result.get(m)))
    else:
        for m in built:
            if opts.get('writeMibs', True) and m not in puts:
                V('ignore_built_not_written', '%s was built but not written although errors are ignored' % m)
            if result.get(m) != 'compiled':
                V('ignore_built_not_compiled', '%s was built, status %s' % (m, result.get(m)))
        for k in exp_bad:
            if str(result.get(k)) not in ('failed', 'missing'):
                V('ignore_bad_status', '%s should stay failed/missing, is %s' % (k, result.get(k)))
    for k in exp_bad:
        if k not in result:
            V('bad_module_unreported', '%s cannot be compiled but is not in the result' % k)


def check_searchers(scn, run, V):
    """C10 part A: searcher order, fresh => untouched and never generated, rebuild, noDeps."""
    tr = run['trace']
    if 'exception' in run:
        V('exception_escaped', repr(run['exception'])[:300])
        return
    result = run['result']
    opts = scn['options']
    exp, info = model(scn)
    order = ['q%d' % i for i in range(len(scn['searchers']))]
    gen_calls = [e['name'] for e in tr.select('codegen', 'genCode', 'call')]
    puts = [e['name'] for e in tr.select('writer', 'putData', 'call')]
    # the age a searcher is asked to compare with is the modification time of the very file the module
    # came from (the one delivered last, i.e. the copy that was parsed)
    delivered = {}
    for e in tr.select('source', 'getData', 'ret'):
        for m_ in file_modules(scn, e['name']):
            delivered[m_] = e.get('mtime')
    lent = set(e['name'] for e in tr.select('borrower', 'getData', 'ret'))
    # split the searcher events of a module into consultation rounds
    rounds = {}
    for e in tr.select('searcher', 'fileExists', 'call'):
        s = e['comp'].split(':')[1]
        if e['name'] in delivered and delivered[e['name']] is not None and e.get('mtime') != delivered[e['name']] \
                and not (e.get('mtime') == 50 and e['name'] in lent):     # 50: what the borrower doubles stamp
            V('searcher_given_wrong_mtime', 'searcher %s asked about %s with source time %r, the file it came from '
              'has %r' % (s, e['name'], e.get('mtime'), delivered[e['name']]))
        r = rounds.setdefault(e['name'], [[]])
        if r[-1] and order.index(s) <= order.index(r[-1][-1]):
            r.append([])
        r[-1].append(s)
        if bool(e['rebuild']) != bool(opts.get('rebuild')):
            V('rebuild_not_forwarded', 'searcher %s asked about %s with rebuild=%s, option is %s' % (
                s, e['name'], e['rebuild'], opts.get('rebuild')))
    for m, rs in rounds.items():
        for seq in rs:
            exp_seq = []
            for i, s in enumerate(scn['searchers']):
                exp_seq.append('q%d' % i)
                a = s['table'].get(m, 'absent')
                if a == 'fresh' and (not opts.get('rebuild') or s.get('stub')):
                    break
            if seq != exp_seq:
                V('searcher_sequence', '%s: searchers consulted %s, expected %s' % (m, seq, exp_seq))
        if len(rs) > 1 and m not in info['borrowed']:
            V('searchers_consulted_twice', '%s: %d rounds of searcher consultation' % (m, len(rs)))

    def fresh(m):
        for s in scn['searchers']:
            if s['table'].get(m, 'absent') == 'fresh' and (not opts.get('rebuild') or s.get('stub')):
                return True
        return False
    for m in scn['modules']:
        if m not in info['parsed']:
            continue
        if fresh(m):
            if m in gen_calls or m in puts:
                V('fresh_regenerated', '%s has a fresh transformed copy but was generated/written' % m,
                  rebuild=bool(opts.get('rebuild')))
            if result.get(m) != 'untouched':
                V('fresh_status', '%s is fresh, status %s' % (m, result.get(m)))
        else:
            requested = m in info['req_canon']
            if opts.get('noDeps') and not requested:
                if m in gen_calls or m in puts:
                    V('nodeps_dependency_generated', '%s is a mere dependency but was generated' % m)
                if result.get(m) != 'untouched':
                    V('nodeps_status', 'dependency %s under noDeps has status %s' % (m, result.get(m)))
            else:
                if m not in gen_calls:
                    V('stale_not_generated', '%s has no fresh copy%s but was not generated' % (
                        m, ' (rebuild)' if opts.get('rebuild') else ''),
                      rebuild=bool(opts.get('rebuild')), nodeps=bool(opts.get('noDeps')))


def check_borrowing(scn, run, V):
    """C19: who is offered to borrowers, in which order, and what happens to the copy."""
    tr = run['trace']
    if 'exception' in run:
        V('exception_escaped', repr(run['exception'])[:300])
        return
    result = run['result']
    opts = scn['options']
    exp, info = model(scn)
    gen_ok = set(e['name'] for e in tr.select('codegen', 'genCode', 'ret'))
    calls = {}
    for e in tr.select('borrower', 'getData', 'call'):
        calls.setdefault(e['name'], []).append(e['comp'].split(':')[1])
    got = {}
    for e in tr.select('borrower', 'getData', 'ret'):
        got.setdefault(e['name'], []).append((e['comp'].split(':')[1], e['text']))
    want_flavour = bool(opts.get('genTexts'))
    for name, seq in calls.items():
        if name in gen_ok:
            V('borrow_for_compiled', '%s compiled fine but borrowers were asked for it' % name)
        for b in seq:
            if bool(scn['borrowers'][int(b[1:])]['genTexts']) != want_flavour:
                V('flavour_mismatch_reached', '%s: borrower %s (genTexts=%s) reached for a genTexts=%s request' % (
                    name, b, scn['borrowers'][int(b[1:])]['genTexts'], want_flavour))
        exp_seq = []
        for i, b in enumerate(scn['borrowers']):
            if bool(b['genTexts']) != want_flavour:
                continue
            exp_seq.append('b%d' % i)
            v = b['table'].get(name)
            if v is not None and v != 'error':
                break
        if seq != exp_seq:
            V('borrower_sequence', '%s: borrowers reached %s, expected %s' % (name, seq, exp_seq))
    # who must have been offered
    for n, st in exp.items():
        if st == 'borrowed' or (n in info['borrowed']):
            if n not in got:
                V('eligible_not_offered', '%s could be borrowed (requested=%s, noDeps=%s) but no '
                  'borrower delivered it; status %s' % (n, n in scn['requested'] or n in info['req_canon'],
                                                        bool(opts.get('noDeps')), result.get(n)),
                  nodeps=bool(opts.get('noDeps')))
    if opts.get('noDeps'):
        for name in calls:
            if name not in scn['requested'] and name not in info['req_canon']:
                V('nodeps_dependency_offered', 'dependency %s offered to borrowers under noDeps' % name)
    puts = dict((e['name'], e['text']) for e in tr.select('writer', 'putData', 'call'))
    for n, lst in got.items():
        text = lst[0][1]
        st = result.get(n)
        if st == 'borrowed':
            if opts.get('writeMibs', True) and puts.get(n) != text:
                V('borrowed_not_verbatim', '%s: written payload differs from the borrowed copy' % n)
        elif st not in ('untouched', 'unprocessed', 'failed'):
            V('borrowed_status', '%s was delivered by a borrower, status is %s' % (n, st))
        if st == 'failed' and n not in scn['writer']:
            V('borrowed_still_failed', '%s was delivered by a borrower but is reported failed' % n)
    for n, st in result.items():
        if st == 'borrowed' and n not in got:
            V('borrowed_from_nowhere', '%s reported borrowed, no borrower delivered it' % n)
        if st == 'compiled' and n in puts and n in got and puts[n] == got[n][0][1]:
            V('compiled_replaced', '%s compiled but the borrowed copy was written' % n)
    # a borrowed module no longer blocks the others
    for n, st in exp.items():
        if isinstance(st, tuple):
            continue
        if str(result.get(n)) != st and n in result:
            V('model_status', '%s is %s, documented orchestration gives %s' % (n, result.get(n), st),
              got=str(result.get(n)), expected=st)
