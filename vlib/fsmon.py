"""Filesystem sanitizer: one process-wide audit hook (cannot be removed, so it is toggled)
recording every mutating filesystem event whose path lies under a watched root."""
import os
import sys

_STATE = {'on': False, 'roots': (), 'events': [], 'installed': False}
MUTATING = ('os.mkdir', 'os.rename', 'os.remove', 'os.rmdir', 'os.chmod', 'os.utime', 'os.truncate',
            'os.symlink', 'os.link', 'os.replace', 'os.unlink', 'tempfile.mkstemp', 'tempfile.mkdtemp',
            'shutil.copyfile', 'shutil.move', 'shutil.rmtree', 'shutil.copymode', 'shutil.copystat',
            'os.chown', 'os.mkfifo', 'os.mknod')


def _hook(event, args):
    st = _STATE
    if not st['on']:
        return
    try:
        if event == 'open':
            path, mode, flags = (list(args) + [None, None, None])[:3]
            if not isinstance(path, (str, bytes)):
                return
            writing = (isinstance(mode, str) and any(c in mode for c in 'wax+')) or \
                (isinstance(flags, int) and flags & (os.O_WRONLY | os.O_RDWR | os.O_CREAT | os.O_TRUNC | os.O_APPEND))
            if not writing:
                return
            paths = [path]
        elif event in MUTATING:
            paths = [a for a in args if isinstance(a, (str, bytes))]
        else:
            return
        for p in paths:
            if isinstance(p, bytes):
                p = p.decode('utf-8', 'replace')
            ap = os.path.abspath(p)
            if any(ap == r or ap.startswith(r + os.sep) for r in st['roots']):
                st['events'].append((event, ap))
    except Exception:
        pass


class Watch(object):
    def __init__(self, *roots):
        self.roots = tuple(os.path.abspath(r) for r in roots)

    def __enter__(self):
        if not _STATE['installed']:
            sys.addaudithook(_hook)
            _STATE['installed'] = True
        _STATE['roots'] = self.roots
        _STATE['events'] = []
        _STATE['on'] = True
        return self

    def __exit__(self, *exc):
        _STATE['on'] = False
        self.events = list(_STATE['events'])
        return False
