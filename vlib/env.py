"""Environment pinning shared by every check.

* the code under observation is the *working tree* of the repository (default /repo,
  override with VERIF_REPO only for self-tests against scratch worktrees);
* nothing is built: pysmi is pure Python, every worker imports the tree directly and
  asserts that the imported package really lives there;
* third-party helpers (icontract) live in the git-ignored /verif/.deps.
"""
import os
import sys

VERIF = os.path.dirname(os.path.dirname(os.path.abspath(__file__)))
REPO = os.path.abspath(os.environ.get('VERIF_REPO', '/repo'))
PYTHON = '/venv/bin/python' if os.path.exists('/venv/bin/python') else sys.executable
DEPS = os.path.join(VERIF, '.deps')
FIXTURES = os.path.join(VERIF, 'vlib', 'fixtures')
GUARD = 'PYSMI_VERIF'


def pin():
    """Make `import pysmi` resolve to REPO and verify it."""
    os.environ.setdefault(GUARD, '1')
    sys.dont_write_bytecode = True
    for p in (DEPS, VERIF, REPO):
        if p in sys.path:
            sys.path.remove(p)
    sys.path.insert(0, DEPS)
    sys.path.insert(0, VERIF)
    sys.path.insert(0, REPO)
    for name in list(sys.modules):
        if name == 'pysmi' or name.startswith('pysmi.'):
            f = getattr(sys.modules[name], '__file__', '') or ''
            if f and not os.path.abspath(f).startswith(REPO + os.sep):
                del sys.modules[name]
    import pysmi
    f = os.path.abspath(pysmi.__file__)
    if not f.startswith(REPO + os.sep):
        raise RuntimeError('pysmi imported from %s, expected under %s' % (f, REPO))
    return REPO


def scratch_root():
    """Directory for per-case temporary trees (RAM backed when available)."""
    for cand in (os.environ.get('VERIF_TMP'), '/dev/shm', os.environ.get('TMPDIR'), '/tmp'):
        if cand and os.path.isdir(cand) and os.access(cand, os.W_OK):
            return cand
    return '/tmp'


def child_env(hashseed='0'):
    env = dict(os.environ)
    env['PYTHONHASHSEED'] = str(hashseed)
    env['PYTHONDONTWRITEBYTECODE'] = '1'
    env['PYTHONWARNINGS'] = 'ignore'
    env[GUARD] = '1'
    env['VERIF_REPO'] = REPO
    env.pop('PYTHONPATH', None)
    return env
