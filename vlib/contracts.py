"""Recording runtime contracts (icontract) on public pysmi methods.

The conditions never abort what they observe: they append an observation to a list and
return True.  They ride along under the workloads of the checks that enable them; the
number of evaluations goes into evidence (zero => the contract was bypassed or icontract
is not installed => nothing is claimed from it)."""
import os

OBS = {'evaluated': 0, 'broken': []}
STATUSES = ('compiled', 'untouched', 'failed', 'unprocessed', 'missing', 'borrowed')
_installed = {'done': False, 'ok': False}


def _record(name, ok, detail):
    OBS['evaluated'] += 1
    if not ok and len(OBS['broken']) < 20:
        OBS['broken'].append((name, detail))
    return True


def compile_result_shape(result):
    ok = isinstance(result, dict) and all(isinstance(k, str) and str(v) in STATUSES for k, v in result.items())
    ok = ok and all((v != 'failed') or hasattr(v, 'error') for v in result.values())
    return _record('MibCompiler.compile returns {name: one of six statuses; failed carry .error}', ok,
                   repr(dict((k, str(v)) for k, v in result.items()))[:300] if isinstance(result, dict) else repr(result)[:100])


def parse_result_shape(result):
    ok = isinstance(result, list) and all(isinstance(m, tuple) and len(m) == 4 and isinstance(m[0], str)
                                          for m in result)
    return _record('parse returns a list of (name, oid, imports, declarations)', ok, repr(result)[:200])


def putdata_stored(self, mibname, data, result, dryRun=False, comments=()):
    if dryRun:
        return _record('putData(dryRun) returns None', result is None, repr(result))
    try:
        from pysmi.compat import encode
        suffix = getattr(self, 'suffix', None)
        if suffix is None:
            suffix = '.py'
        path = os.path.join(self._path, mibname) + suffix
        with open(path, 'rb') as f:
            stored = f.read()
        want = data
        if comments:
            want = '#\n' + ''.join(['# %s\n' % x for x in comments]) + '#\n' + data
        ok = stored == encode(want)
        return _record('after putData() returns the destination holds the text', ok,
                       '%s: %d bytes stored, %d expected' % (path, len(stored), len(encode(want))))
    except Exception as exc:
        return _record('after putData() returns the destination holds the text', False, repr(exc))


def install():
    """decorate the classes in place (idempotent); returns True when icontract is available"""
    if _installed['done']:
        return _installed['ok']
    _installed['done'] = True
    try:
        import icontract
    except ImportError:
        return False

    class ContractBroken(Exception):
        pass
    from pysmi.compiler import MibCompiler
    from pysmi.parser.smi import SmiV2Parser
    from pysmi.writer.localfile import FileWriter
    from pysmi.writer.pyfile import PyFileWriter
    MibCompiler.compile = icontract.ensure(compile_result_shape, error=ContractBroken)(MibCompiler.compile)
    SmiV2Parser.parse = icontract.ensure(parse_result_shape, error=ContractBroken)(SmiV2Parser.parse)
    FileWriter.putData = icontract.ensure(putdata_stored, error=ContractBroken)(FileWriter.putData)
    PyFileWriter.putData = icontract.ensure(putdata_stored, error=ContractBroken)(PyFileWriter.putData)
    _installed['ok'] = True
    return True
