"""sys.monitoring (PEP 669) recorder: which pysmi functions the workload really entered."""
import os
import sys

from vlib import env


class Recorder(object):
    TOOL = 3  # sys.monitoring.PROFILER_ID is 2; use a free slot

    def __init__(self, root=None):
        self.root = os.path.join(root or env.REPO, 'pysmi') + os.sep
        self.scripts = os.path.join(root or env.REPO, 'scripts') + os.sep
        self.calls = {}
        self.active = False

    def start(self):
        mon = getattr(sys, 'monitoring', None)
        if mon is None:
            return
        try:
            mon.use_tool_id(self.TOOL, 'verif-cover')
        except ValueError:
            return
        mon.register_callback(self.TOOL, mon.events.PY_START, self._start)
        events = mon.events.PY_START
        if os.environ.get('VERIF_LINE_COVER'):
            # reach analysis only (tools/reach.py): every line reports once, then is switched off
            self.lines = set()
            mon.register_callback(self.TOOL, mon.events.LINE, self._line)
            events |= mon.events.LINE
        mon.set_events(self.TOOL, events)
        self.active = True

    def _line(self, code, lineno):
        fn = code.co_filename
        if fn.startswith(self.root) or fn.startswith(self.scripts):
            self.lines.add((fn[len(env.REPO) + 1:], lineno))
        return sys.monitoring.DISABLE

    def _start(self, code, offset):
        fn = code.co_filename
        if not (fn.startswith(self.root) or fn.startswith(self.scripts)):
            return sys.monitoring.DISABLE
        key = fn[len(env.REPO) + 1:] + ':' + code.co_qualname
        self.calls[key] = self.calls.get(key, 0) + 1

    def stop(self):
        if not self.active:
            return
        mon = sys.monitoring
        mon.set_events(self.TOOL, 0)
        mon.register_callback(self.TOOL, mon.events.PY_START, None)
        if os.environ.get('VERIF_LINE_COVER'):
            mon.register_callback(self.TOOL, mon.events.LINE, None)
            with open(os.path.join(os.environ['VERIF_LINE_COVER'], 'lines-%d.txt' % os.getpid()), 'w') as f:
                for fn, ln in sorted(self.lines):
                    f.write('%s:%d\n' % (fn, ln))
        mon.free_tool_id(self.TOOL)
        self.active = False

    def summary(self):
        return dict(self.calls)
