"""Child process for C13: writes self-describing payloads of one module repeatedly.
usage: c13_child.py <dst> <writer:file|py> <writer id> <count> <module> [once]"""
import os
import sys

sys.path.insert(0, os.path.dirname(os.path.dirname(os.path.abspath(__file__))))
from vlib import env  # noqa
env.pin()


def payload(wid, seq):
    filler = ('w%s-%d ' % (wid, seq)) * (50 + (seq * 37 + int(wid) * 11) % 400)
    body = '%s:%d:%d:' % (wid, seq, len(filler)) + filler
    return '# ' + body + ':END\n'


def main():
    dst, kind, wid, count, module = sys.argv[1:6]
    if kind == 'file':
        from pysmi.writer import FileWriter
        w = FileWriter(dst).setOptions(suffix='.txt')
    else:
        from pysmi.writer import PyFileWriter
        w = PyFileWriter(dst).setOptions(pyCompile=False)
    for seq in range(int(count)):
        w.putData(module, payload(wid, seq))
    return 0


if __name__ == '__main__':
    sys.exit(main())
